package rules

import (
	"fmt"
	"go/token"
	"go/types"
	"strings"

	"golang.org/x/tools/go/ssa"

	"olacheck/an"
	"olacheck/core"
)

func init() {
	// TS-WARN-ALL: the configured warnings are documented as sent with all responses. In the router, the loop that adds
	// them comes before anything that can answer: it dominates every WriteHeader of the router and every dispatch to a
	// handler. An early answer in front of it (the rate limiter's 429) would make the effect of one setting depend on another.
	register(&Rule{ID: "TS-WARN-ALL", Floor: 1,
		Doc: "in the router the loop that adds the configured Warning headers dominates every point that answers the request — each WriteHeader on the response writer (other than a constant 5xx: the server failing) and each dispatch to a handler (ServeHTTP on a handler value, a call of a Server method that takes the response writer): no response, not even an early refusal such as the rate limiter's 429, leaves without the configured warnings",
		Run: func(c *core.Ctx) {
			r := requireRoles(c)
			if r == nil {
				return
			}
			fn := r.Router
			// where the warnings are added: the first point of the router that reads the Warnings setting, or that calls a step
			// of the module which reads it (`s.commonHeaders(resp)`, `setCommonHeaders(h, s.conf.API.Warnings)`)
			readsWarnings := func(f *ssa.Function) bool {
				found := false
				an.Instrs(f, func(in ssa.Instruction) {
					if ld, ok := in.(*ssa.UnOp); ok && ld.Op == token.MUL {
						if _, p := accessPath(ld); len(p) > 0 && p[len(p)-1] == "Warnings" {
							found = true
						}
					}
				})
				return found
			}
			// (of several such points — the header and the body of a counting loop both read the list — the one that
			// dominates the others)
			var loopHead *ssa.BasicBlock
			var cands []*ssa.BasicBlock
			for _, b := range fn.Blocks {
				for _, in := range b.Instrs {
					isCand := false
					if ld, ok := in.(*ssa.UnOp); ok && ld.Op == token.MUL {
						if _, p := accessPath(ld); len(p) > 0 && p[len(p)-1] == "Warnings" {
							isCand = true
						}
					}
					if call, ok := in.(*ssa.Call); ok {
						if h := call.Call.StaticCallee(); h != nil && c.P.InModule(h) && len(h.Blocks) > 0 && readsWarnings(h) {
							isCand = true
						}
					}
					if isCand {
						cands = append(cands, b)
						break
					}
				}
			}
			for _, b := range cands {
				all := true
				for _, o := range cands {
					if o != b && !b.Dominates(o) {
						all = false
					}
				}
				if all {
					loopHead = b
					break
				}
			}
			if loopHead == nil && len(cands) > 0 {
				loopHead = cands[0]
			}
			if loopHead == nil {
				c.Unresolved("warnings-loop", "no point that adds the Warnings setting to the response found in the router")
				return
			}
			bad := token.NoPos
			what := ""
			n := 0
			an.Calls(fn, func(call ssa.CallInstruction) {
				cc := call.Common()
				answers := false
				switch {
				case cc.IsInvoke() && cc.Method.Name() == "WriteHeader" && isNamed(cc.Value.Type(), "net/http", "ResponseWriter"):
					answers = true
					// a constant 5xx is the server failing (used after Close, …), not an answer of the registry API
					if len(cc.Args) == 1 {
						if st, isC := an.ConstInt(cc.Args[0]); isC && st >= 500 {
							answers = false
						}
					}
				case cc.IsInvoke() && cc.Method.Name() == "ServeHTTP":
					answers = true
				case an.IsMethod(call, "net/http", "HandlerFunc", "ServeHTTP"):
					answers = true
				default:
					if sc := cc.StaticCallee(); sc != nil && c.P.InModule(sc) {
						for _, a := range cc.Args {
							if isNamed(a.Type(), "net/http", "ResponseWriter") {
								answers = true
							}
						}
					}
				}
				if !answers {
					return
				}
				n++
				if !loopHead.Dominates(call.Block()) && bad == token.NoPos {
					bad = call.Pos()
					what = "answer"
				}
			})
			_ = what
			c.Check(bad == token.NoPos && n > 0, "warnings-before-every-answer", fn.Pos(), "the Warnings loop of %s comes before each of the %d points that answer a request: %v%s", c.P.FuncName(fn), n, bad == token.NoPos && n > 0, map[bool]string{true: "", false: fmt.Sprintf(" (the answer at %s can be reached without it) — that response leaves without the configured warnings: the effect of the warning setting depends on which other setting answered first", c.P.Pos(bad))}[bad == token.NoPos])
		}})

	// TS-CONTENT-LENGTH: a handler that announces a Content-Length computed from a byte slice writes exactly that slice.
	register(&Rule{ID: "TS-CONTENT-LENGTH", Floor: 0,
		Doc: "where a handler sets the Content-Length header from len(b) of a byte slice, the body it then writes is that very slice: every Write on the response writer reachable from the header assignment writes the same value (not a variable reassigned in between — a page cut out of the full response) — a declared length larger than what is written makes net/http close the connection: the client sees 200 and a truncated body",
		Run: func(c *core.Ctx) {
			n := 0
			for _, fn := range c.P.Funcs("") {
				k := 0
				an.Calls(fn, func(call ssa.CallInstruction) {
					if !(an.IsMethod(call, "net/http", "Header", "Add") || an.IsMethod(call, "net/http", "Header", "Set")) {
						return
					}
					_, args := an.CallArgs(call)
					if len(args) != 2 {
						return
					}
					if s0, ok := an.ConstString(args[0]); !ok || !strings.EqualFold(s0, "content-length") {
						return
					}
					// the byte slice whose length is formatted
					var src ssa.Value
					var find func(v ssa.Value, d int)
					find = func(v ssa.Value, d int) {
						if v == nil || d > 8 || src != nil {
							return
						}
						v = an.Strip(v)
						if l := lenOf(v); l != nil {
							if sl, isSl := l.Type().Underlying().(*types.Slice); isSl {
								if b, isB := sl.Elem().Underlying().(*types.Basic); isB && b.Kind() == types.Byte {
									src = l
								}
							}
							return
						}
						if in, isIn := v.(ssa.Instruction); isIn {
							for _, op := range in.Operands(nil) {
								if *op != nil {
									find(*op, d+1)
								}
							}
							// variadic argument arrays: follow the stores into them
							if sl, isSl := v.(*ssa.Slice); isSl {
								if al, isAl := sl.X.(*ssa.Alloc); isAl && al.Referrers() != nil {
									for _, ref := range *al.Referrers() {
										if ia, isIA := ref.(*ssa.IndexAddr); isIA && ia.Referrers() != nil {
											for _, r2 := range *ia.Referrers() {
												if st, isSt := r2.(*ssa.Store); isSt {
													find(st.Val, d+1)
												}
											}
										}
									}
								}
							}
						}
					}
					find(args[1], 0)
					if src == nil {
						return
					}
					n++
					k++
					key := fmt.Sprintf("length:%s#%d", kn(c.P.FuncName(fn)), k)
					bad := token.NoPos
					ci, _ := call.(ssa.Instruction)
					an.ReachFrom(ci, func(in ssa.Instruction) bool {
						wc, ok := in.(ssa.CallInstruction)
						if !ok || bad != token.NoPos {
							return bad == token.NoPos
						}
						cc := wc.Common()
						if cc.IsInvoke() && cc.Method.Name() == "Write" && isNamed(cc.Value.Type(), "net/http", "ResponseWriter") && len(cc.Args) == 1 {
							if an.Strip(cc.Args[0]) != an.Strip(src) && !sameSource(cc.Args[0], src) {
								bad = wc.Pos()
							}
						}
						return true
					})
					c.Check(bad == token.NoPos, key, call.Pos(), "the Content-Length set at %s is the length of the very slice every later Write sends: %v%s", c.P.Pos(call.Pos()), bad == token.NoPos, map[bool]string{true: "", false: fmt.Sprintf(" (the Write at %s sends another value — the variable was reassigned after its length was taken) — the declared length and the body differ: net/http cuts the connection, the client reads 200 and a truncated body", c.P.Pos(bad))}[bad == token.NoPos])
				})
			}
			if n == 0 {
				c.Pass("length:none", token.NoPos, "no Content-Length header is computed from a byte slice in the server package (net/http derives it)")
			}
		}})
}

func init() {
	// TS-SIGNAL-CTX: the command waits for a termination signal and then asks the server to shut down gracefully. The
	// context it hands to Shutdown bounds how long in-flight requests may take; it must not be a context the signal itself
	// cancels (signal.NotifyContext): net/http's Shutdown returns at once with a cancelled context while a connection is
	// still active, the server's Shutdown then skips closing the store — the upload in flight leaves its temp file behind.
	register(&Rule{ID: "TS-SIGNAL-CTX", Floor: 1,
		Doc: "in the command package, the context handed to the server's Shutdown is not one that the termination signal cancels: it does not come from signal.NotifyContext — with a context already cancelled, the HTTP shutdown gives up at once while requests are in flight and the store is never closed (open upload sessions keep their temporary files)",
		Run: func(c *core.Ctx) {
			r := requireRoles(c)
			if r == nil {
				return
			}
			n := 0
			for _, fn := range c.P.ModFuncs {
				if !strings.HasPrefix(core.FuncPkgPath(fn), c.P.Module+"/cmd") || len(fn.Blocks) == 0 {
					continue
				}
				k := 0
				an.Calls(fn, func(call ssa.CallInstruction) {
					sc := call.Common().StaticCallee()
					if sc == nil || sc.Name() != "Shutdown" || sc.Signature.Recv() == nil || an.NamedOf(an.Deref(sc.Signature.Recv().Type())) != r.Server {
						return
					}
					_, args := an.CallArgs(call)
					if len(args) != 1 {
						return
					}
					n++
					k++
					key := fmt.Sprintf("shutdown-ctx:%s#%d", kn(c.P.FuncName(fn)), k)
					bad := token.NoPos
					leaves, _ := originsAcross(c, args[0], 0)
					for _, o := range append(append([]ssa.Value{an.Origin(args[0])}, an.Origins(args[0])...), leaves...) {
						if cc, _ := an.CallOf(o); cc != nil && an.IsFunc(cc, "os/signal", "NotifyContext") {
							bad = cc.Pos()
						}
					}
					c.Check(bad == token.NoPos, key, call.Pos(), "the context given to Shutdown at %s is not cancelled by the termination signal itself: %v%s", c.P.Pos(call.Pos()), bad == token.NoPos, map[bool]string{true: "", false: fmt.Sprintf(" (it comes from signal.NotifyContext at %s) — a signal that arrives while a request is in flight makes the HTTP shutdown return at once, the store is not closed and the unfinished upload's temporary file stays in the storage directory", c.P.Pos(bad))}[bad == token.NoPos])
				})
			}
			if n == 0 {
				c.Unresolved("shutdown-call", "no call of the server's Shutdown found in the command package")
			}
		}})
}
