package rules

import (
	"fmt"
	"runtime/debug"
	"sort"

	"olacheck/core"
)

// Rule is one repository-specific static rule.
type Rule struct {
	ID    string
	Doc   string // the rule applied, in one or two sentences
	Floor int    // minimum number of instances the rule must range over (vacuity guard)
	Run   func(c *core.Ctx)
}

var registry = map[string]*Rule{}

func register(r *Rule) {
	if registry[r.ID] != nil {
		panic("duplicate rule " + r.ID)
	}
	registry[r.ID] = r
}

// Property wires rules to a property of properties.jsonl.
type Property struct {
	ID          string
	Rules       []string
	Decided     string
	NotDecided  string
	Assumptions []string
	Technique   string // a few words naming the deciding method
	DesignRef   string
}

var properties = map[string]*Property{}

func registerProperty(p *Property) { properties[p.ID] = p }

// PropertyIDs lists the claimed properties.
func PropertyIDs() []string {
	var out []string
	for id := range properties {
		out = append(out, id)
	}
	sort.Strings(out)
	return out
}

func GetProperty(id string) *Property { return properties[id] }
func GetRule(id string) *Rule         { return registry[id] }

// RuleIDs lists all rules.
func RuleIDs() []string {
	var out []string
	for id := range registry {
		out = append(out, id)
	}
	sort.Strings(out)
	return out
}

// RunRule runs one rule, converting panics into fail-closed obligations, and applies the floor.
func RunRule(c *core.Ctx, id string) (obs []core.Ob) {
	r := registry[id]
	start := len(c.Obs)
	c.SetRule(id)
	if r == nil {
		c.Unresolved("rule:"+id, "rule %s is not implemented", id)
		return c.Obs[start:]
	}
	func() {
		defer func() {
			if e := recover(); e != nil {
				c.SetRule(id)
				c.Undecided("panic", 0, "analysis panic: %v\n%s", e, string(debug.Stack()))
			}
		}()
		r.Run(c)
	}()
	c.SetRule(id)
	n := 0
	seen := map[string]bool{}
	for _, o := range c.Obs[start:] {
		if !seen[o.Key] {
			seen[o.Key] = true
			n++
		}
	}
	if n < r.Floor {
		c.Obs = append(c.Obs, core.Ob{Rule: id, Key: "floor", OK: false, Kind: "vacuous", Pos: "-",
			Detail: fmt.Sprintf("rule ranged over %d instance(s), fewer than the %d confirmed by hand: its anchors no longer resolve", n, r.Floor)})
	}
	return c.Obs[start:]
}
