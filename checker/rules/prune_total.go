package rules

import (
	"fmt"
	"go/token"
	"strings"

	"golang.org/x/tools/go/ssa"

	"olacheck/an"
	"olacheck/core"
)

// TS-PRUNE-TOTAL: the cache keeps an entry whose cleanup callback fails (Delete and DeleteAll leave it, the age pruner
// refreshes it, the count pruner skips it).  For the upload-session cache that is the wrong way round: a session whose
// cleanup fails would never cease to exist — it would still answer status queries after a cancel, never expire, never
// be evicted and count against the per-repository bound for ever.  So the cleanup callback of every cache of upload
// sessions is total: every return of the callback (and of the function of the store it delegates to) hands out nil.

func init() {
	register(&Rule{ID: "TS-PRUNE-TOTAL", Floor: 1,
		Doc: "the cleanup callback (Opts.PruneFn) of every cache whose values are upload sessions returns nil on every path, directly or through the store function it delegates to: the cache keeps an entry whose cleanup fails, so a failing session cleanup would leave a cancelled or expired session usable, unevictable and counted against the bound for ever",
		Run: func(c *core.Ctx) {
			r := requireRoles(c)
			if r == nil {
				return
			}
			n := 0
			var alwaysNil func(fn *ssa.Function, depth int) (bool, token.Pos)
			alwaysNil = func(fn *ssa.Function, depth int) (bool, token.Pos) {
				if fn == nil || len(fn.Blocks) == 0 || depth > 3 {
					return false, token.NoPos
				}
				res := fn.Signature.Results()
				if res.Len() == 0 {
					return true, token.NoPos
				}
				ei := res.Len() - 1
				if !an.IsErrorType(res.At(ei).Type()) {
					return true, token.NoPos
				}
				ok, at := true, token.NoPos
				an.Instrs(fn, func(in ssa.Instruction) {
					ret, isRet := in.(*ssa.Return)
					if !isRet || len(ret.Results) <= ei || !ok {
						return
					}
					for _, o := range append([]ssa.Value{ret.Results[ei]}, an.Origins(ret.Results[ei])...) {
						if an.IsNilConst(o) {
							continue
						}
						if _, isPhi := o.(*ssa.Phi); isPhi {
							continue // its operands are among the origins
						}
						if call, idx := an.CallOf(o); call != nil && (idx == ei || idx < 0 || call.Call.StaticCallee() != nil) {
							if h := call.Call.StaticCallee(); h != nil && strings.HasPrefix(core.FuncPkgPath(h), c.P.Module) {
								if sub, _ := alwaysNil(h, depth+1); sub {
									continue
								}
							}
						}
						ok, at = false, ret.Pos()
					}
				})
				return ok, at
			}
			// the options of a cache of upload sessions: every local of type cache.Opts[…, <upload type>] in the store package
			// (handed to cache.New directly, or through a constructor step shared by the stores)
			for _, fn := range c.P.Funcs("internal/store") {
				an.Instrs(fn, func(in ssa.Instruction) {
					al, ok := in.(*ssa.Alloc)
					if !ok {
						return
					}
					named := an.NamedOf(an.Deref(al.Type()))
					if named == nil || named.Obj().Name() != "Opts" || named.Obj().Pkg() == nil || !strings.HasSuffix(named.Obj().Pkg().Path(), "/internal/cache") {
						return
					}
					isUpload := false
					if targs := named.TypeArgs(); targs != nil && targs.Len() == 2 {
						for _, fam := range r.Families {
							if fam.Upload != nil && an.NamedOf(an.Deref(targs.At(1))) == fam.Upload {
								isUpload = true
							}
						}
					}
					if !isUpload {
						return
					}
					vals := structStores(al)["PruneFn"]
					for i, v := range vals {
						var cb *ssa.Function
						switch x := an.Strip(v).(type) {
						case *ssa.MakeClosure:
							cb, _ = x.Fn.(*ssa.Function)
						case *ssa.Function:
							cb = x
						}
						n++
						key := fmt.Sprintf("cleanup:%s#%d", kn(c.P.FuncName(fn)), i+1)
						if cb == nil {
							c.Undecided(key, al.Pos(), "the cleanup callback of the upload-session cache options built at %s could not be resolved to a function", c.P.Pos(al.Pos()))
							continue
						}
						ok, at := alwaysNil(cb, 0)
						c.Check(ok, key, cb.Pos(), "the cleanup callback of the upload-session cache options built at %s returns nil on every path: %v — the cache keeps an entry whose cleanup fails (return at %s): a session whose temporary file cannot be removed would stay usable after a cancel, never expire, never be evicted and count against the bound for ever", c.P.Pos(al.Pos()), ok, c.P.Pos(at))
					}
				})
			}
			if n == 0 {
				c.Unresolved("cleanup", "no upload-session cache with a cleanup callback found in the store package")
			}
		}})
}
