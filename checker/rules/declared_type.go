package rules

import (
	"fmt"
	"go/token"
	"go/types"
	"strings"

	"golang.org/x/tools/go/ssa"

	"olacheck/an"
	"olacheck/core"
)

// TS-DECLARED-TYPE: the push handler reads "no Content-Type" (an empty declared media type) as "take the type
// the detector finds in the body" — which skips the whitelist of supported types and the comparison of declared
// and detected kind.  The declared type is the Content-Type header after normalisation (parameters cut off,
// lower case).  A normaliser that can turn a NON-empty header into the empty string (because it fails to parse
// it) makes every unsupported, malformed Content-Type mean "none declared": the push is acknowledged although
// its media type is not a supported one.  Hence: the functions of the module the header value passes through
// return "" only where their argument is "".
func init() {
	register(&Rule{ID: "TS-DECLARED-TYPE", Floor: 0,
		Doc: "the value of the Content-Type request header reaches the push handler's media-type tests only through string operations and normalisers of the module that answer \"\" for the empty string alone: no module function on that way returns the constant \"\" (or the result of a failed mime.ParseMediaType) except behind a test that its argument is empty — otherwise an unsupported Content-Type that does not parse is taken for ‘none declared’ and the body's detected type is accepted in its place",
		Run: func(c *core.Ctx) {
			n := 0
			judged := map[*ssa.Function]bool{}
			judge := func(h *ssa.Function, site token.Pos) {
				if judged[h] || len(h.Blocks) == 0 || len(h.Params) == 0 {
					return
				}
				judged[h] = true
				n++
				key := "normaliser:" + kn(c.P.FuncName(h))
				param := h.Params[len(h.Params)-1]
				for _, p := range h.Params {
					if b, ok := p.Type().Underlying().(*types.Basic); ok && b.Kind() == types.String {
						param = p
						break
					}
				}
				emptyArg := func(b *ssa.BasicBlock) bool {
					for _, g := range an.GuardingEdges(b) {
						if x, y, op, ok := an.CmpTest(g.If()); ok {
							for _, pr := range [][2]ssa.Value{{x, y}, {y, x}} {
								if s0, isS := an.ConstString(pr[1]); isS && s0 == "" && an.Origin(pr[0]) == ssa.Value(param) {
									if (op == token.EQL && g.Succ == 0) || (op == token.NEQ && g.Succ == 1) {
										return true
									}
								}
							}
						}
					}
					return false
				}
				bad := token.NoPos
				why := ""
				an.Instrs(h, func(in ssa.Instruction) {
					ret, ok := in.(*ssa.Return)
					if !ok || len(ret.Results) == 0 || bad != token.NoPos {
						return
					}
					for _, o := range append([]ssa.Value{an.Strip(ret.Results[0])}, an.Origins(ret.Results[0])...) {
						if s0, isS := an.ConstString(o); isS && s0 == "" && !emptyArg(ret.Block()) {
							bad, why = ret.Pos(), "returns the constant \"\""
						}
						if ex, isEx := o.(*ssa.Extract); isEx && ex.Index == 0 {
							if call, isCall := ex.Tuple.(*ssa.Call); isCall && an.IsFunc(call, "mime", "ParseMediaType") {
								// the base type of a failed parse is ""
								okEdge := false
								for _, g := range an.GuardingEdges(ret.Block()) {
									if x, nilSucc, isNil := an.NilTest(g.If()); isNil && g.Succ == nilSucc {
										if e2, isE := an.Strip(x).(*ssa.Extract); isE && e2.Tuple == ex.Tuple {
											okEdge = true
										}
									}
								}
								if !okEdge {
									bad, why = ret.Pos(), "returns the base type of a parse that may have failed"
								}
							}
						}
					}
				})
				c.Check(bad == token.NoPos, key, site, "%s, which the Content-Type header passes through, answers \"\" only for the empty string: %v%s", c.P.FuncName(h), bad == token.NoPos, map[bool]string{true: "", false: fmt.Sprintf(" (%s at %s) — a Content-Type that is not supported and does not parse is then read as ‘none declared’: the push is accepted with the type detected from the body", why, c.P.Pos(bad))}[bad == token.NoPos])
			}
			for _, fn := range c.P.Funcs("") {
				an.Calls(fn, func(call ssa.CallInstruction) {
					if !an.IsMethod(call, "net/http", "Header", "Get") {
						return
					}
					_, args := an.CallArgs(call)
					if len(args) != 1 {
						return
					}
					if s0, ok := an.ConstString(args[0]); !ok || !strings.EqualFold(s0, "content-type") {
						return
					}
					v, ok := call.(ssa.Value)
					if !ok {
						return
					}
					// follow the value forward through string operations and module functions
					seen := map[ssa.Value]bool{}
					work := []ssa.Value{v}
					for len(work) > 0 && len(seen) < 100 {
						x := work[len(work)-1]
						work = work[:len(work)-1]
						if seen[x] || x.Referrers() == nil {
							continue
						}
						seen[x] = true
						for _, ref := range *x.Referrers() {
							switch u := ref.(type) {
							case *ssa.Phi:
								work = append(work, u)
							case *ssa.Extract:
								if u.Index == 0 {
									work = append(work, u)
								}
							case *ssa.Store:
								if al, isAl := u.Addr.(*ssa.Alloc); isAl && u.Val == x && al.Referrers() != nil {
									for _, r2 := range *al.Referrers() {
										if ld, isLd := r2.(*ssa.UnOp); isLd && ld.Op == token.MUL {
											work = append(work, ld)
										}
									}
								}
							case *ssa.Call:
								callee := u.Call.StaticCallee()
								if callee == nil || len(u.Call.Args) == 0 {
									continue
								}
								passes := false
								for _, a := range u.Call.Args {
									if an.Strip(a) == x || a == x {
										passes = true
									}
								}
								if !passes {
									continue
								}
								if callee.Pkg != nil && callee.Pkg.Pkg.Path() == "strings" {
									work = append(work, u)
									continue
								}
								if c.P.InModule(callee) {
									if res := callee.Signature.Results(); res.Len() == 1 {
										if b, isB := res.At(0).Type().Underlying().(*types.Basic); isB && b.Kind() == types.String {
											judge(callee, u.Pos())
											work = append(work, u)
										}
									}
								}
							}
						}
					}
				})
			}
			if n == 0 {
				c.Pass("normaliser:none", token.NoPos, "the Content-Type header reaches the handler's tests through string operations of the standard library only")
			}
		}})
}
