package rules

import (
	"fmt"
	"go/constant"
	"go/token"
	"go/types"
	"strings"

	"golang.org/x/tools/go/ssa"

	"olacheck/an"
	"olacheck/core"
)

// TS-INDEX-SCOPE: two scoping conditions of the index's editing methods.
//
// (a) A removal that names a digest touches entries of that digest only. In the method that removes a descriptor (a
// pointer method of the index with a descriptor parameter that never appends to the entry list), every removal of an
// entry lies behind the edge on which the entry's digest equals the requested digest, or behind the edge on which no
// digest was requested (removal by tag or subject alone). A removal reachable with a requested digest that the entry
// does not have deletes somebody else's entry: removing a tag from X takes the tag's new owner Y out of the index.
//
// (b) Recording children does not depend on what the top-level list holds. The method that appends the descriptors it
// is given to the child list does so unconditionally, or under tests that read the child list only: a child skipped
// because its digest is (at that moment) also a top-level entry is unknown once that entry goes.
func init() {
	register(&Rule{ID: "TS-INDEX-SCOPE", Floor: 2,
		Doc: "(a) in the index method that removes a descriptor, every removal of an entry lies behind the ‘entry's digest equals the requested digest’ edge or behind the ‘no digest requested’ edge — a removal by digest+tag never deletes an entry of another digest; (b) the method that records child descriptors appends what it is given under no test that reads the top-level list — a child is recorded whether or not its digest is a top-level entry at that moment",
		Run: func(c *core.Ctx) {
			r := requireRoles(c)
			if r == nil {
				return
			}
			n := 0
			// the removing side of the index: its exported pointer methods with a descriptor parameter from which no append
			// to the top-level list can be reached, and the index methods those call
			var methods []*ssa.Function
			for _, fn := range c.P.Funcs("types") {
				if len(fn.Blocks) == 0 || fn.Signature.Recv() == nil || len(fn.Params) < 1 {
					continue
				}
				if _, isPtr := fn.Signature.Recv().Type().(*types.Pointer); !isPtr || !isNamedType(fn.Signature.Recv().Type(), r.TypesPath, "Index") {
					continue
				}
				methods = append(methods, fn)
			}
			isMethod := map[*ssa.Function]bool{}
			for _, fn := range methods {
				isMethod[fn] = true
			}
			appendsTop := map[*ssa.Function]bool{}
			callees := map[*ssa.Function][]*ssa.Function{}
			for _, fn := range methods {
				an.Instrs(fn, func(in ssa.Instruction) {
					switch x := in.(type) {
					case *ssa.Store:
						fa, ok := x.Addr.(*ssa.FieldAddr)
						if !ok || an.Strip(fa.X) != ssa.Value(fn.Params[0]) {
							return
						}
						if st, isSt := an.Deref(fa.X.Type()).Underlying().(*types.Struct); !isSt || st.Field(fa.Field).Name() != "Manifests" {
							return
						}
						if call, isCall := stripChangeType(an.Strip(x.Val)).(*ssa.Call); isCall {
							if bi, isB := call.Call.Value.(*ssa.Builtin); isB && bi.Name() == "append" {
								appendsTop[fn] = true
							}
						}
					case ssa.CallInstruction:
						if h := x.Common().StaticCallee(); h != nil && isMethod[h] && h != fn {
							callees[fn] = append(callees[fn], h)
						}
					}
				})
			}
			var reach func(fn *ssa.Function, seen map[*ssa.Function]bool)
			reach = func(fn *ssa.Function, seen map[*ssa.Function]bool) {
				if seen[fn] {
					return
				}
				seen[fn] = true
				for _, h := range callees[fn] {
					reach(h, seen)
				}
			}
			removerScope := map[*ssa.Function]bool{}
			for _, fn := range methods {
				hasDesc := false
				for _, p := range fn.Params[1:] {
					if isNamed(p.Type(), r.TypesPath, "Descriptor") {
						hasDesc = true
					}
				}
				if !hasDesc || !token.IsExported(fn.Name()) {
					continue
				}
				seen := map[*ssa.Function]bool{}
				reach(fn, seen)
				inserts := false
				for h := range seen {
					if appendsTop[h] {
						inserts = true
					}
				}
				if !inserts {
					for h := range seen {
						removerScope[h] = true
					}
				}
			}
			namesDigest := func(fn *ssa.Function) bool {
				for _, p := range fn.Params[1:] {
					if isNamed(p.Type(), r.TypesPath, "Descriptor") {
						return true
					}
					if nt, isN := p.Type().(*types.Named); isN && nt.Obj().Name() == "Digest" {
						return true
					}
				}
				return false
			}
			blindRemover := map[*ssa.Function]string{}
			for _, fn := range methods {
				if _, sh := indexListEdits(fn); len(sh) > 0 && !namesDigest(fn) {
					blindRemover[fn] = sh[0].field
				}
			}
			calledInScope := map[*ssa.Function]bool{}
			for _, fn := range methods {
				if removerScope[fn] {
					for _, h := range callees[fn] {
						calledInScope[h] = true
					}
				}
			}
			for _, fn := range methods {
				recv := fn.Params[0]
				st, ok := an.Deref(recv.Type()).Underlying().(*types.Struct)
				if !ok {
					continue
				}
				fieldOf := func(addr ssa.Value) (string, bool) {
					fa, ok := addr.(*ssa.FieldAddr)
					if !ok || an.Strip(fa.X) != ssa.Value(recv) {
						return "", false
					}
					return st.Field(fa.Field).Name(), true
				}
				// what the method does to the descriptor lists
				appendsTo, shrinks := indexListEdits(fn)
				// (a) the remover: has a Descriptor parameter, shrinks the top-level list, never appends to it
				var dparam *ssa.Parameter
				for _, p := range fn.Params[1:] {
					if isNamed(p.Type(), r.TypesPath, "Descriptor") {
						dparam = p
					}
				}
				// a helper that is told neither descriptor nor digest and removes where its callers say: the obligation lies at its call sites
				if removerScope[fn] {
					if _, isHelper := blindRemover[fn]; isHelper && calledInScope[fn] {
						shrinks = nil
					}
					an.Calls(fn, func(call ssa.CallInstruction) {
						if h := call.Common().StaticCallee(); h != nil && h != fn {
							if f, isHelper := blindRemover[h]; isHelper {
								shrinks = append(shrinks, indexShrink{call.Block(), call.Pos(), f})
							}
						}
					})
				}
				if len(shrinks) > 0 && removerScope[fn] {
					// the requested digest: the Digest field of a descriptor parameter, or a parameter of a digest type
					reqDigest := func(v ssa.Value) bool {
						if p, isP := an.Strip(v).(*ssa.Parameter); isP && p != recv {
							if nt, isN := p.Type().(*types.Named); isN && nt.Obj().Name() == "Digest" {
								return true
							}
						}
						if dparam == nil {
							return false
						}
						_, pth := deepAccessPath(v)
						if len(pth) == 0 || pth[len(pth)-1] != "Digest" {
							return false
						}
						base := elemRoot(v)
						if base == ssa.Value(dparam) {
							return true
						}
						if al, isAl := base.(*ssa.Alloc); isAl {
							if sv := an.SingleStore(al); sv != nil && an.Strip(sv) == ssa.Value(dparam) {
								return true
							}
						}
						return false
					}
					namesDigest := dparam != nil
					for _, p := range fn.Params[1:] {
						if nt, isN := p.Type().(*types.Named); isN && nt.Obj().Name() == "Digest" {
							namesDigest = true
						}
					}
					entryDigest := func(v ssa.Value, list string) bool {
						root, pth := accessPath(an.Strip(v))
						if root == nil || !(root == ssa.Value(recv) || an.Origin(root) == ssa.Value(recv)) {
							return false
						}
						return len(pth) == 3 && pth[0] == list && pth[1] == "[]" && pth[2] == "Digest"
					}
					// the block lies behind ‘entry digest == requested digest’ or ‘no digest requested’
					scoped := func(blk *ssa.BasicBlock, field string) bool {
						for _, g := range an.GuardingEdges(blk) {
							x, y, op, isCmp := an.CmpTest(g.If())
							if !isCmp {
								continue
							}
							if eq := (op == token.EQL && g.Succ == 0) || (op == token.NEQ && g.Succ == 1); !eq {
								continue
							}
							for _, pr := range [][2]ssa.Value{{x, y}, {y, x}} {
								if entryDigest(pr[0], field) && reqDigest(pr[1]) {
									return true
								}
								if s0, isS := an.ConstString(pr[1]); isS && s0 == "" && reqDigest(pr[0]) {
									return true
								}
							}
						}
						return false
					}
					// … or behind a boolean flag every non-false assignment of which lies behind one of them
					flagScoped := func(blk *ssa.BasicBlock, field string) bool {
						for _, g := range an.GuardingEdges(blk) {
							base, neg := an.CondBase(g.If().Cond)
							ph, isPhi := base.(*ssa.Phi)
							if !isPhi || (g.Succ == 0) == neg {
								continue
							}
							ok := true
							for k, e := range ph.Edges {
								if cst, isC := e.(*ssa.Const); isC && cst.Value != nil && cst.Value.Kind() == constant.Bool && !constant.BoolVal(cst.Value) {
									continue
								}
								if !scoped(ph.Block().Preds[k], field) {
									ok = false
								}
							}
							if ok {
								return true
							}
						}
						return false
					}
					k := 0
					for _, sh := range shrinks {
						k++
						n++
						key := fmt.Sprintf("remove-scope:%s:%s#%d", kn(c.P.FuncName(fn)), sh.field, k)
						okEdge := scoped(sh.blk, sh.field) || flagScoped(sh.blk, sh.field)
						if !okEdge && !namesDigest {
							// a helper that is told neither descriptor nor digest: every call of it lies behind ‘no digest requested’
							okEdge = noDigestCallers(c, r, fn)
						}
						c.Check(okEdge, key, sh.pos, "the removal from %s at %s lies behind ‘the entry has the requested digest’ or ‘no digest requested’: %v — otherwise a removal that names digest X (and a tag or subject) deletes the entry of another digest that holds that tag or subject now: it vanishes from the index although nobody removed it", sh.field, c.P.Pos(sh.pos), okEdge)
					}
				}
				// (b) the child recorder: appends (elements of) a parameter to a list other than Manifests and never touches Manifests
				if len(appendsTo) > 0 && !appendsTo["Manifests"] && len(shrinks) == 0 {
					hasListParam := false
					for _, p := range fn.Params[1:] {
						if sl, isSl := p.Type().Underlying().(*types.Slice); isSl && isNamed(sl.Elem(), r.TypesPath, "Descriptor") {
							hasListParam = true
						}
					}
					if hasListParam {
						n++
						key := "child-record:" + kn(c.P.FuncName(fn))
						bad := token.NoPos
						an.Instrs(fn, func(in ssa.Instruction) {
							// a read of the top-level list, or a call of a method of the index that reads it
							switch x := in.(type) {
							case *ssa.UnOp:
								if f, isF := fieldOf(x.X); isF && f == "Manifests" && x.Op == token.MUL && bad == token.NoPos {
									bad = x.Pos()
								}
							case *ssa.Call:
								if h := x.Call.StaticCallee(); h != nil && h != fn && core.FuncPkgPath(h) == r.TypesPath && h.Signature.Recv() != nil && isNamedType(h.Signature.Recv().Type(), r.TypesPath, "Index") && bad == token.NoPos {
									reads := false
									an.Instrs(h, func(hi ssa.Instruction) {
										switch y := hi.(type) {
										case *ssa.FieldAddr:
											if hs, isSt := an.Deref(y.X.Type()).Underlying().(*types.Struct); isSt && hs.Field(y.Field).Name() == "Manifests" {
												reads = true
											}
										case *ssa.Field:
											if hs, isSt := y.X.Type().Underlying().(*types.Struct); isSt && hs.Field(y.Field).Name() == "Manifests" {
												reads = true
											}
										}
									})
									if reads {
										bad = x.Pos()
									}
								}
							}
						})
						c.Check(bad == token.NoPos, key, fn.Pos(), "%s records the children it is given without consulting the top-level list: %v%s", c.P.FuncName(fn), bad == token.NoPos, map[bool]string{true: "", false: fmt.Sprintf(" (it reads the top-level entries at %s) — a child skipped because its digest is a top-level entry at that moment is unknown as soon as that entry is removed by tag or replaced: lookup by digest fails for a manifest that is still referenced", c.P.Pos(bad))}[bad == token.NoPos])
					}
				}
			}
			if n == 0 {
				c.Unresolved("index-editing", "no removing or child-recording method of the index found")
			}
		}})
}

// TS-INDEX-REUSE: ‘an untagged digest is listed at most once’. When a descriptor with a tag is added and the index already
// holds an entry of the same digest that carries neither tag nor subject — also one whose annotation map is empty but
// not nil, which is what removing a tag in place leaves behind — the insert reuses that entry. The rule evaluates the
// branch conditions of the inserting method under exactly that scenario (same digest, annotations non-nil and empty,
// a tag requested, no subject requested) and requires every path from the loop that holds the in-place overwrite to
// reach the overwrite: a path that passes the entry over appends a second entry for the digest.
func init() {
	register(&Rule{ID: "TS-INDEX-REUSE", Floor: 1,
		Doc: "in the index method that inserts a descriptor (overwrites a same-digest entry in place or appends), under the scenario ‘an entry of the same digest exists whose annotations are an empty, non-nil map; the new descriptor carries a tag and no subject’ every path through the loop that holds the in-place overwrite reaches the overwrite — the branch conditions are evaluated over the atoms entry.Digest == d.Digest, entry.Annotations == nil, entry.Annotations[k] == \"\" / == requested value, requested tag / subject == \"\"; a condition the scenario does not decide is explored both ways",
		Run: func(c *core.Ctx) {
			r := requireRoles(c)
			if r == nil {
				return
			}
			refName := constValue(c, "types", "AnnotRefName")
			subjName := constValue(c, "types", "AnnotReferrerSubject")
			n := 0
			for _, fn := range c.P.Funcs("types") {
				if len(fn.Blocks) == 0 || fn.Signature.Recv() == nil || len(fn.Params) < 2 || !isNamedType(fn.Signature.Recv().Type(), r.TypesPath, "Index") {
					continue
				}
				recv := fn.Params[0]
				var dparam *ssa.Parameter
				for _, p := range fn.Params[1:] {
					if isNamed(p.Type(), r.TypesPath, "Descriptor") {
						dparam = p
					}
				}
				if dparam == nil {
					continue
				}
				isD := func(root ssa.Value) bool {
					if root == ssa.Value(dparam) {
						return true
					}
					if al, ok := root.(*ssa.Alloc); ok {
						if sv := an.SingleStore(al); sv != nil && an.Strip(sv) == ssa.Value(dparam) {
							return true
						}
					}
					return false
				}
				ev := &reuseEval{recv: recv, isD: isD, refName: refName, subjName: subjName, mod: c.P.Module}
				top := &reuseEnv{fn: fn}
				// the in-place overwrite: a store of the parameter into an element of the top-level list
				var overwrite *ssa.Store
				an.Instrs(fn, func(in ssa.Instruction) {
					st, ok := in.(*ssa.Store)
					if !ok || overwrite != nil {
						return
					}
					ia, ok := st.Addr.(*ssa.IndexAddr)
					if !ok {
						return
					}
					if root, pth := accessPath(ia); !(root == ssa.Value(recv) && len(pth) == 2 && pth[0] == "Manifests") {
						return
					}
					if r2, p2 := accessPath(an.Strip(st.Val)); r2 != nil && isD(r2) && len(p2) == 0 {
						overwrite = st
					}
				})
				if overwrite == nil {
					continue
				}
				h := loopHeader(overwrite.Block())
				if h == nil {
					// the overwrite is followed by a return: its block is not part of the loop; find the loop through the counter
					if ia, ok := overwrite.Addr.(*ssa.IndexAddr); ok {
						idx := an.Strip(ia.Index)
						if bo, isBo := idx.(*ssa.BinOp); isBo {
							idx = an.Strip(bo.X)
						}
						if ph, isPhi := idx.(*ssa.Phi); isPhi && isLoopHead(ph.Block()) {
							h = ph.Block()
						}
					}
				}
				if h == nil {
					continue
				}
				n++
				key := "reuse-untagged:" + kn(c.P.FuncName(fn))
				// the body's first block
				var body *ssa.BasicBlock
				for _, sc := range h.Succs {
					if inNatLoop(h, sc) && sc != h {
						body = sc
					}
				}
				if body == nil {
					c.Undecided(key, overwrite.Pos(), "loop around the in-place overwrite not recognised")
					continue
				}
				bad := token.NoPos
				seen := map[*ssa.BasicBlock]bool{}
				var walk func(b *ssa.BasicBlock)
				walk = func(b *ssa.BasicBlock) {
					if bad != token.NoPos || seen[b] {
						return
					}
					seen[b] = true
					if b == overwrite.Block() {
						return
					}
					if b == h || !inNatLoop(h, b) {
						bad = an.BlockPos(b)
						if bad == token.NoPos {
							bad = overwrite.Pos()
						}
						return
					}
					ifi := an.BlockIf(b)
					if ifi == nil {
						for _, sc := range b.Succs {
							walk(sc)
						}
						if len(b.Succs) == 0 {
							bad = an.BlockPos(b) // a return inside the loop without the overwrite
						}
						return
					}
					if v, decided := ev.cond(top, ifi.Cond, 0); decided {
						if v {
							walk(b.Succs[0])
						} else {
							walk(b.Succs[1])
						}
						return
					}
					walk(b.Succs[0])
					walk(b.Succs[1])
				}
				walk(body)
				c.Check(bad == token.NoPos, key, overwrite.Pos(), "an entry of the same digest with an empty (non-nil) annotation map is reused when a tagged descriptor is inserted (every path of the scenario reaches the overwrite at %s): %v%s", c.P.Pos(overwrite.Pos()), bad == token.NoPos, map[bool]string{true: "", false: fmt.Sprintf(" (the scenario can pass the entry over at %s) — removing a tag leaves exactly such an entry; tagging the digest again then appends a second entry: the untagged digest is listed twice and the index grows with every tag move", c.P.Pos(bad))}[bad == token.NoPos])
			}
			if n == 0 {
				c.Unresolved("insert-method", "no index method with an in-place overwrite of a same-digest entry found")
			}
		}})
}

// reuseEval evaluates conditions of the inserting method — and of the module's helpers it calls, with their
// parameters bound to the arguments — under the scenario of TS-INDEX-REUSE.
type reuseEval struct {
	recv              *ssa.Parameter
	isD               func(ssa.Value) bool
	refName, subjName string
	mod               string
}

type reuseEnv struct {
	fn     *ssa.Function
	bind   map[*ssa.Parameter]ssa.Value
	parent *reuseEnv
}

func (ev *reuseEval) callee(call *ssa.Call) *ssa.Function {
	h := call.Call.StaticCallee()
	if h == nil || len(h.Blocks) == 0 || len(h.Blocks) > 24 || h.Pkg == nil || !strings.HasPrefix(h.Pkg.Pkg.Path(), ev.mod) {
		return nil
	}
	return h
}

func (ev *reuseEval) enter(e *reuseEnv, call *ssa.Call, h *ssa.Function) *reuseEnv {
	ne := &reuseEnv{fn: h, bind: map[*ssa.Parameter]ssa.Value{}, parent: e}
	for k, p := range h.Params {
		if k < len(call.Call.Args) {
			ne.bind[p] = call.Call.Args[k]
		}
	}
	return ne
}

func (ev *reuseEval) constStr(e *reuseEnv, v ssa.Value) (string, bool) {
	if s0, ok := an.ConstString(v); ok {
		return s0, true
	}
	if p, ok := an.Strip(v).(*ssa.Parameter); ok && e.parent != nil {
		if b, has := e.bind[p]; has {
			return ev.constStr(e.parent, b)
		}
	}
	return "", false
}

// classify: "D", "D.<field>", "E", "E.<field>" (entry of the top-level list), "Dann:<key>", "Eann:<key>", "len(E.Annotations)"
func (ev *reuseEval) classify(e *reuseEnv, v ssa.Value, depth int) string {
	if depth > 10 {
		return ""
	}
	v = an.Strip(v)
	if l := lenOf(v); l != nil {
		if k := ev.classify(e, l, depth+1); k != "" {
			return "len(" + k + ")"
		}
		return ""
	}
	if lk, ok := v.(*ssa.Lookup); ok {
		key, isK := ev.constStr(e, lk.Index)
		if !isK {
			return ""
		}
		switch ev.classify(e, lk.X, depth+1) {
		case "D.Annotations":
			return "Dann:" + key
		case "E.Annotations":
			return "Eann:" + key
		}
		return ""
	}
	if ex, ok := v.(*ssa.Extract); ok {
		if lk, isLk := ex.Tuple.(*ssa.Lookup); isLk && ex.Index == 0 {
			return ev.classify(e, lk, depth+1)
		}
		if call, isCall := ex.Tuple.(*ssa.Call); isCall {
			return ev.result(e, call, ex.Index, depth+1)
		}
		return ""
	}
	if call, ok := v.(*ssa.Call); ok {
		if _, isB := call.Call.Value.(*ssa.Builtin); !isB {
			return ev.result(e, call, 0, depth+1)
		}
	}
	if ph, ok := v.(*ssa.Phi); ok {
		// tag := "" / d.Annotations[k]: the requested value
		out := ""
		for _, ed := range ph.Edges {
			if s0, isS := an.ConstString(ed); isS && s0 == "" {
				continue
			}
			k := ev.classify(e, ed, depth+1)
			if k == "" || (out != "" && out != k) {
				return ""
			}
			out = k
		}
		return out
	}
	root, pth := accessPath(v)
	if root == nil {
		return ""
	}
	base := ""
	switch {
	case e.parent == nil && ev.isD(root):
		base = "D"
	case e.parent == nil && (root == ssa.Value(ev.recv) || an.Origin(root) == ssa.Value(ev.recv)) && len(pth) >= 2 && pth[0] == "Manifests" && pth[1] == "[]":
		base, pth = "E", pth[2:]
	default:
		if p, isP := root.(*ssa.Parameter); isP && e.parent != nil {
			if b, has := e.bind[p]; has {
				base = ev.classify(e.parent, b, depth+1)
			}
		}
	}
	if base == "" || strings.ContainsAny(base, ":(") && len(pth) > 0 {
		return ""
	}
	for _, f := range pth {
		if f == "[]" {
			return ""
		}
		base += "." + f
	}
	return base
}

// result: what the i-th result of a call of a module function is, when every return agrees
func (ev *reuseEval) result(e *reuseEnv, call *ssa.Call, i int, depth int) string {
	h := ev.callee(call)
	if h == nil {
		return ""
	}
	ne := ev.enter(e, call, h)
	out := ""
	for _, b := range h.Blocks {
		ret, ok := b.Instrs[len(b.Instrs)-1].(*ssa.Return)
		if !ok || i >= len(ret.Results) {
			continue
		}
		if s0, isS := an.ConstString(ret.Results[i]); isS && s0 == "" {
			continue // the ‘not set’ return
		}
		k := ev.classify(ne, ret.Results[i], depth+1)
		if k == "" || (out != "" && out != k) {
			return ""
		}
		out = k
	}
	return out
}

// cmp: truth of a comparison under the scenario: (value, decided)
func (ev *reuseEval) cmp(e *reuseEnv, bo *ssa.BinOp) (bool, bool) {
	if bo.Op != token.EQL && bo.Op != token.NEQ && bo.Op != token.GTR && bo.Op != token.LSS {
		return false, false
	}
	kx, ky := ev.classify(e, bo.X, 0), ev.classify(e, bo.Y, 0)
	cx, isCX := ev.constStr(e, bo.X)
	cy, isCY := ev.constStr(e, bo.Y)
	nilX, nilY := an.IsNilConst(bo.X), an.IsNilConst(bo.Y)
	iy, isIY := an.ConstInt(bo.Y)
	eq, decided := false, false
	set := func(v bool) { eq, decided = v, true }
	pair := func(a, b string) bool { return (kx == a && ky == b) || (kx == b && ky == a) }
	withEmpty := func(k string) bool { return (kx == k && isCY && cy == "") || (ky == k && isCX && cx == "") }
	withNil := func(k string) bool { return (kx == k && nilY) || (ky == k && nilX) }
	refName, subjName := ev.refName, ev.subjName
	switch {
	case pair("E.Digest", "D.Digest"):
		set(true)
	case withNil("E.Annotations"):
		set(false)
	case withNil("D.Annotations"):
		set(false)
	case withEmpty("Dann:" + refName):
		set(false) // a tag is requested
	case withEmpty("Dann:" + subjName):
		set(true) // no subject requested
	case withEmpty("Eann:" + refName), withEmpty("Eann:" + subjName):
		set(true)
	case pair("Eann:"+refName, "Dann:"+refName):
		set(false)
	case pair("Eann:"+subjName, "Dann:"+subjName):
		set(true)
	case kx == "len(E.Annotations)" && isIY && iy == 0:
		if bo.Op == token.GTR || bo.Op == token.LSS {
			return false, true
		}
		set(true)
	}
	if !decided {
		return false, false
	}
	if bo.Op == token.NEQ {
		return !eq, true
	}
	if bo.Op == token.EQL {
		return eq, true
	}
	return false, false
}

// cond: truth of a boolean value under the scenario
func (ev *reuseEval) cond(e *reuseEnv, v ssa.Value, depth int) (bool, bool) {
	if depth > 6 {
		return false, false
	}
	base, neg := an.CondBase(v)
	val, decided := false, false
	switch x := base.(type) {
	case *ssa.Const:
		if x.Value != nil && x.Value.Kind() == constant.Bool {
			val, decided = constant.BoolVal(x.Value), true
		}
	case *ssa.BinOp:
		val, decided = ev.cmp(e, x)
	case *ssa.Call:
		if h := ev.callee(x); h != nil {
			val, decided = ev.fnValue(ev.enter(e, x, h), depth+1)
		}
	case *ssa.Phi:
		val, decided = ev.phi(e, x, depth+1)
	case *ssa.Parameter:
		if b, has := e.bind[x]; has && e.parent != nil {
			val, decided = ev.cond(e.parent, b, depth+1)
		}
	}
	if !decided {
		return false, false
	}
	return val != neg, true
}

// feasible: block b of e.fn can be reached under the scenario (edges whose condition the scenario decides the other
// way are cut; a block in a cycle counts as reachable)
func (ev *reuseEval) feasible(e *reuseEnv, b *ssa.BasicBlock, seen map[*ssa.BasicBlock]bool, depth int) bool {
	if b.Index == 0 || seen[b] || depth > 12 {
		return true
	}
	seen[b] = true
	for _, p := range b.Preds {
		if !ev.edgeOpen(e, p, b, depth) {
			continue
		}
		if ev.feasible(e, p, seen, depth+1) {
			return true
		}
	}
	return false
}

func (ev *reuseEval) edgeOpen(e *reuseEnv, p, b *ssa.BasicBlock, depth int) bool {
	ifi := an.BlockIf(p)
	if ifi == nil || p.Succs[0] == p.Succs[1] {
		return true
	}
	v, decided := ev.cond(e, ifi.Cond, depth+1)
	if !decided {
		return true
	}
	if v {
		return p.Succs[0] == b
	}
	return p.Succs[1] == b
}

func (ev *reuseEval) phi(e *reuseEnv, ph *ssa.Phi, depth int) (bool, bool) {
	var vals [2]bool
	for k, ed := range ph.Edges {
		p := ph.Block().Preds[k]
		if !ev.edgeOpen(e, p, ph.Block(), depth) || !ev.feasible(e, p, map[*ssa.BasicBlock]bool{}, depth) {
			continue
		}
		v, decided := ev.cond(e, ed, depth+1)
		if !decided {
			return false, false
		}
		if v {
			vals[1] = true
		} else {
			vals[0] = true
		}
	}
	if vals[0] != vals[1] {
		return vals[1], true
	}
	return false, false
}

// fnValue: the boolean a module function returns under the scenario, when every feasible return agrees
func (ev *reuseEval) fnValue(e *reuseEnv, depth int) (bool, bool) {
	var vals [2]bool
	for _, b := range e.fn.Blocks {
		ret, ok := b.Instrs[len(b.Instrs)-1].(*ssa.Return)
		if !ok {
			continue
		}
		if len(ret.Results) != 1 {
			return false, false
		}
		if !ev.feasible(e, b, map[*ssa.BasicBlock]bool{}, depth) {
			continue
		}
		v, decided := ev.cond(e, ret.Results[0], depth+1)
		if !decided {
			return false, false
		}
		if v {
			vals[1] = true
		} else {
			vals[0] = true
		}
	}
	if vals[0] != vals[1] {
		return vals[1], true
	}
	return false, false
}

// returnsShortened: h returns one of its slice parameters cut at the end (list[:n])
func returnsShortened(h *ssa.Function) bool {
	if len(h.Blocks) == 0 || len(h.Blocks) > 6 {
		return false
	}
	found := false
	for _, b := range h.Blocks {
		ret, ok := b.Instrs[len(b.Instrs)-1].(*ssa.Return)
		if !ok || len(ret.Results) != 1 {
			continue
		}
		sl, ok := stripChangeType(an.Strip(ret.Results[0])).(*ssa.Slice)
		if !ok || sl.High == nil || sl.Low != nil {
			return false
		}
		if _, isP := an.Origin(sl.X).(*ssa.Parameter); !isP {
			return false
		}
		found = true
	}
	return found
}

// noDigestCallers: every call of index method fn lies, in a method that has a descriptor parameter, behind the edge on
// which that descriptor's digest is empty
func noDigestCallers(c *core.Ctx, r *Roles, fn *ssa.Function) bool {
	n := 0
	for _, caller := range c.P.Funcs("types") {
		if len(caller.Blocks) == 0 || caller == fn {
			continue
		}
		var dparam *ssa.Parameter
		for _, p := range caller.Params {
			if isNamed(p.Type(), r.TypesPath, "Descriptor") {
				dparam = p
			}
		}
		bad := false
		an.Calls(caller, func(call ssa.CallInstruction) {
			if call.Common().StaticCallee() != fn {
				return
			}
			n++
			if dparam == nil {
				bad = true
				return
			}
			ok := false
			for _, g := range an.GuardingEdges(call.Block()) {
				x, y, op, isCmp := an.CmpTest(g.If())
				if !isCmp || !((op == token.EQL && g.Succ == 0) || (op == token.NEQ && g.Succ == 1)) {
					continue
				}
				for _, pr := range [][2]ssa.Value{{x, y}, {y, x}} {
					if s0, isS := an.ConstString(pr[1]); isS && s0 == "" {
						if _, pth := deepAccessPath(pr[0]); len(pth) > 0 && pth[len(pth)-1] == "Digest" {
							base := elemRoot(pr[0])
							if base == ssa.Value(dparam) {
								ok = true
							}
							if al, isAl := base.(*ssa.Alloc); isAl {
								if sv := an.SingleStore(al); sv != nil && an.Strip(sv) == ssa.Value(dparam) {
									ok = true
								}
							}
						}
					}
				}
			}
			if !ok {
				bad = true
			}
		})
		if bad {
			return false
		}
	}
	return n > 0
}

type indexShrink struct {
	blk   *ssa.BasicBlock
	pos   token.Pos
	field string
}

// indexListEdits: what a pointer method of the index does to the descriptor lists of its receiver — the fields it
// appends to, and the places where it stores a list back shortened (list[:n], or the result of a helper that returns
// its list parameter shortened)
func indexListEdits(fn *ssa.Function) (map[string]bool, []indexShrink) {
	appendsTo := map[string]bool{}
	var shrinks []indexShrink
	recv := fn.Params[0]
	st, ok := an.Deref(recv.Type()).Underlying().(*types.Struct)
	if !ok {
		return appendsTo, nil
	}
	an.Instrs(fn, func(in ssa.Instruction) {
		sto, ok := in.(*ssa.Store)
		if !ok {
			return
		}
		fa, ok := sto.Addr.(*ssa.FieldAddr)
		if !ok || an.Strip(fa.X) != ssa.Value(recv) {
			return
		}
		f := st.Field(fa.Field).Name()
		switch v := stripChangeType(an.Strip(sto.Val)).(type) {
		case *ssa.Call:
			if bi, isB := v.Call.Value.(*ssa.Builtin); isB && bi.Name() == "append" {
				appendsTo[f] = true
			}
			// the list handed to a helper that returns it shortened
			if h := v.Call.StaticCallee(); h != nil && returnsShortened(h) {
				shrinks = append(shrinks, indexShrink{sto.Block(), sto.Pos(), f})
			}
		case *ssa.Slice:
			if v.High != nil && v.Low == nil {
				shrinks = append(shrinks, indexShrink{sto.Block(), sto.Pos(), f})
			}
		}
	})
	return appendsTo, shrinks
}
