package rules

import (
	"fmt"
	"go/token"
	"go/types"
	"sort"

	"golang.org/x/tools/go/ssa"

	"olacheck/an"
	"olacheck/core"
)

// TS-TAGKEEP: an entry of the repository index carries the tag (ref-name annotation). The methods of
// types.Index that edit the entry list in place may drop or overwrite an entry only after they have
// looked at the annotations of that very entry (it has none, or its tag/subject is the one being
// replaced), or on the ‘no tag requested’ edge of an explicit removal by digest. A removal decided on
// anything else (the digest alone, the annotations of another descriptor) silently loses a tag that
// was never deleted or moved.

func init() {
	register(&Rule{ID: "TS-TAGKEEP", Floor: 4,
		Doc: "every in-place removal or overwrite of an entry of Index.Manifests (in the pointer-receiver methods of types.Index) is reachable, from the point where the entry's position is chosen, only through a test of that entry's annotations, or through the ‘requested tag is empty’ edge of a removal by digest",
		Run: runTagKeep})
}

func runTagKeep(c *core.Ctx) {
	r := requireRoles(c)
	if r == nil {
		return
	}
	refName := constValue(c, "types", "AnnotRefName")
	pk := c.P.Pkg("types")
	if pk == nil || refName == "" {
		c.Unresolved("types", "package types / AnnotRefName not found")
		return
	}
	obj, _ := pk.Types.Scope().Lookup("Index").(*types.TypeName)
	if obj == nil {
		c.Unresolved("types.Index", "type Index not found")
		return
	}
	named := obj.Type().(*types.Named)
	var methods []*ssa.Function
	ms := c.P.SSA.MethodSets.MethodSet(types.NewPointer(named))
	for i := 0; i < ms.Len(); i++ {
		if fn := c.P.SSA.MethodValue(ms.At(i)); fn != nil && fn.Signature.Recv() != nil {
			if _, isPtr := fn.Signature.Recv().Type().(*types.Pointer); isPtr && len(fn.Blocks) > 0 {
				methods = append(methods, fn)
			}
		}
	}
	sort.Slice(methods, func(i, j int) bool { return methods[i].Name() < methods[j].Name() })
	sites := 0
	for _, fn := range methods {
		type frameFns struct {
			entryIndexOf     func(v ssa.Value) (ssa.Value, []string, bool)
			isManifestsField func(addr ssa.Value) bool
			mentions         func(v ssa.Value, idx ssa.Value, d int) bool
		}
		var mkFrame func(fn *ssa.Function) frameFns
		mkFrame = func(fn *ssa.Function) frameFns {
			recv := fn.Params[0]
			// entryIndexOf: v is (part of) receiver.Manifests[idx]...: returns idx and the path below the element
			entryIndexOf := func(v ssa.Value) (ssa.Value, []string, bool) {
				var rev []string
				var idx ssa.Value
				v = an.Strip(v)
				for i := 0; i < 24; i++ {
					switch x := v.(type) {
					case *ssa.UnOp:
						if x.Op != token.MUL {
							return nil, nil, false
						}
						v = x.X
					case *ssa.FieldAddr:
						st := an.Deref(x.X.Type()).Underlying().(*types.Struct)
						name := st.Field(x.Field).Name()
						if idx != nil {
							if name == "Manifests" && x.X == ssa.Value(recv) {
								out := make([]string, len(rev))
								for k := range rev {
									out[k] = rev[len(rev)-1-k]
								}
								return idx, out, true
							}
							return nil, nil, false
						}
						rev = append(rev, name)
						v = x.X
					case *ssa.Field:
						st := x.X.Type().Underlying().(*types.Struct)
						if idx != nil {
							return nil, nil, false
						}
						rev = append(rev, st.Field(x.Field).Name())
						v = x.X
					case *ssa.IndexAddr:
						if idx != nil {
							return nil, nil, false
						}
						idx = x.Index
						v = x.X
					case *ssa.Alloc:
						// a local copy of the element: `md := i.Manifests[mi]`
						if s := an.SingleStore(x); s != nil {
							v = s
							continue
						}
						return nil, nil, false
					default:
						return nil, nil, false
					}
				}
				return nil, nil, false
			}
			isManifestsField := func(addr ssa.Value) bool {
				fa, ok := addr.(*ssa.FieldAddr)
				if !ok || fa.X != ssa.Value(recv) {
					return false
				}
				st := an.Deref(fa.X.Type()).Underlying().(*types.Struct)
				return st.Field(fa.Field).Name() == "Manifests"
			}
			// mentions: the condition reads the annotations of entry idx
			var mentions func(v ssa.Value, idx ssa.Value, d int) bool
			mentions = func(v ssa.Value, idx ssa.Value, d int) bool {
				if v == nil || d > 8 {
					return false
				}
				if ix, pth, ok := entryIndexOf(v); ok && ix == idx && len(pth) >= 1 && pth[0] == "Annotations" {
					return true
				}
				switch x := v.(type) {
				case *ssa.BinOp:
					return mentions(x.X, idx, d+1) || mentions(x.Y, idx, d+1)
				case *ssa.UnOp:
					return mentions(x.X, idx, d+1)
				case *ssa.Lookup:
					return mentions(x.X, idx, d+1)
				case *ssa.Extract:
					return mentions(x.Tuple, idx, d+1)
				case *ssa.Call:
					if bi, ok := x.Call.Value.(*ssa.Builtin); ok && bi.Name() == "len" {
						return mentions(x.Call.Args[0], idx, d+1)
					}
					// a predicate applied to (a record built from) the entry's annotations: ref.accepts(cur)
					if _, isBuiltin := x.Call.Value.(*ssa.Builtin); !isBuiltin {
						for _, a := range x.Call.Args {
							if mentions(a, idx, d+1) {
								return true
							}
							if ld, ok := an.Strip(a).(*ssa.UnOp); ok && ld.Op == token.MUL {
								for _, vs := range structStores(ld.X) {
									for _, sv := range vs {
										if mentions(sv, idx, d+1) {
											return true
										}
									}
								}
							}
						}
					}
				case *ssa.ChangeType:
					return mentions(x.X, idx, d+1)
				case *ssa.Convert:
					return mentions(x.X, idx, d+1)
				case *ssa.Phi:
					// a materialised && / || (tag-less switch): any operand
					for _, e := range x.Edges {
						if mentions(e, idx, d+1) {
							return true
						}
					}
				}
				return false
			}
			return frameFns{entryIndexOf, isManifestsField, mentions}
		}
		recv := fn.Params[0]
		ff := mkFrame(fn)
		entryIndexOf, isManifestsField, mentions := ff.entryIndexOf, ff.isManifestsField, ff.mentions
		requestedTag := func(v ssa.Value, seen map[ssa.Value]bool) bool {
			return requestedTagIn(fn, refName, v, seen, func(p *ssa.Parameter) bool { return p != recv }, 0)
		}
		type site struct {
			kind  string
			at    ssa.Instruction
			idx   ssa.Value
			block *ssa.BasicBlock
		}
		var found []site
		for _, b := range fn.Blocks {
			for k, in := range b.Instrs {
				st, ok := in.(*ssa.Store)
				if !ok {
					continue
				}
				// shrink: receiver.Manifests = receiver.Manifests[:n]
				if isManifestsField(st.Addr) {
					sl, ok := st.Val.(*ssa.Slice)
					if !ok || sl.High == nil || sl.Low != nil {
						continue
					}
					if ld, ok := sl.X.(*ssa.UnOp); !ok || !isManifestsField(ld.X) {
						continue
					}
					// the element overwritten just before is the one removed
					var idx ssa.Value
					for j := k - 1; j >= 0; j-- {
						if s2, ok := b.Instrs[j].(*ssa.Store); ok {
							if ix, pth, ok := entryIndexOf(s2.Addr); ok && len(pth) == 0 {
								idx = ix
								break
							}
						}
					}
					if idx == nil {
						c.Undecided(fmt.Sprintf("remove:%s#%d", c.P.FuncName(fn), len(found)+1), st.Pos(), "%s shortens Manifests at %s but the removed position cannot be identified", c.P.FuncName(fn), c.P.Pos(st.Pos()))
						continue
					}
					found = append(found, site{"remove", st, idx, b})
					continue
				}
				// overwrite: receiver.Manifests[idx] = <something that is not another entry>
				if ix, pth, ok := entryIndexOf(st.Addr); ok && len(pth) == 0 {
					if _, _, fromList := entryIndexOf(st.Val); fromList {
						continue // part of a removal (swap with the last entry), handled there
					}
					found = append(found, site{"overwrite", st, ix, b})
				}
			}
		}
		// removals done through a helper: a method of the index that removes the entry at a position it is given, or a
		// function that removes a position from a descriptor list it is given (and whose result is stored back)
		for _, b := range fn.Blocks {
			for _, in := range b.Instrs {
				switch x := in.(type) {
				case *ssa.Call:
					if h := x.Call.StaticCallee(); h != nil && h != fn && len(x.Call.Args) > 0 && x.Call.Args[0] == ssa.Value(recv) {
						if pi, ok := removerMethod(h); ok && pi < len(x.Call.Args) {
							found = append(found, site{"remove", x, x.Call.Args[pi], b})
						}
					}
				case *ssa.Store:
					if isManifestsField(x.Addr) {
						if call, ok := stripChangeType(x.Val).(*ssa.Call); ok {
							if h := call.Call.StaticCallee(); h != nil && len(call.Call.Args) >= 2 {
								if li, pi, ok := listRemover(h); ok && li < len(call.Call.Args) && pi < len(call.Call.Args) {
									if ld, ok := stripChangeType(call.Call.Args[li]).(*ssa.UnOp); ok && isManifestsField(ld.X) {
										found = append(found, site{"remove", x, call.Call.Args[pi], b})
									}
								}
							}
						}
					}
				}
			}
		}
		// a remover helper's own shrink is accounted for at its call sites
		if _, isRemover := removerMethod(fn); isRemover {
			var kept []site
			for _, st := range found {
				if _, isParam := st.idx.(*ssa.Parameter); isParam {
					continue
				}
				kept = append(kept, st)
			}
			found = kept
		}
		// a method that only removes (never appends to the list) removes every matching entry: after a removal the
		// scan continues — no path from the removal leaves the loop without passing its header again
		appends := false
		an.Instrs(fn, func(in ssa.Instruction) {
			if st, ok := in.(*ssa.Store); ok && isManifestsField(st.Addr) {
				if call, ok := st.Val.(*ssa.Call); ok {
					if bi, ok := call.Call.Value.(*ssa.Builtin); ok && bi.Name() == "append" {
						appends = true
					}
				}
			}
		})
		if !appends {
			k := 0
			for _, s := range found {
				if s.kind != "remove" {
					continue
				}
				k++
				h := loopHeader(s.block)
				if h == nil {
					// a block that leaves the loop unconditionally is not part of the loop: find the loop through the
					// position variable (a phi in the header of the scanning loop)
					if in, ok := s.idx.(ssa.Instruction); ok && in.Block() != nil {
						hb := in.Block()
						if _, isPhi := s.idx.(*ssa.Phi); !isPhi {
							// rangeindex+1 style: the phi lives in the same block
							for _, x := range hb.Instrs {
								if _, ok := x.(*ssa.Phi); ok {
									isPhi = true
								}
							}
						}
						for _, p := range hb.Preds {
							if hb.Dominates(p) {
								h = hb
							}
						}
					}
					if h == nil {
						continue
					}
				}
				seen := map[*ssa.BasicBlock]bool{}
				var escapes func(b *ssa.BasicBlock) bool
				escapes = func(b *ssa.BasicBlock) bool {
					if b == h || seen[b] {
						return false
					}
					seen[b] = true
					if len(b.Succs) == 0 {
						return true
					}
					for _, x := range b.Succs {
						if escapes(x) {
							return true
						}
					}
					return false
				}
				esc := false
				for _, x := range s.block.Succs {
					if escapes(x) {
						esc = true
					}
				}
				sites++
				c.Check(!esc, fmt.Sprintf("remove-all:%s#%d", c.P.FuncName(fn), k), s.at.Pos(), "after the removal at %s the scan of %s continues with the remaining entries: %v — otherwise only the first matching entry is removed and the other tags of a deleted digest stay listed and resolvable", c.P.Pos(s.at.Pos()), c.P.FuncName(fn), !esc)
			}
		}
		n := map[string]int{}
		for _, s := range found {
			sites++
			n[s.kind]++
			key := fmt.Sprintf("%s:%s#%d", s.kind, c.P.FuncName(fn), n[s.kind])
			// start: the block defining idx (phi/loop header), else the entry block
			start := fn.Blocks[0]
			if in, ok := s.idx.(ssa.Instruction); ok && in.Block() != nil {
				start = in.Block()
			}
			// blocks whose branch reads the entry's annotations; edges ‘requested tag is empty’
			test := map[*ssa.BasicBlock]bool{}
			type edge struct {
				b *ssa.BasicBlock
				s int
			}
			cut := map[edge]bool{}
			for _, b := range fn.Blocks {
				ifi := an.BlockIf(b)
				if ifi == nil {
					continue
				}
				if mentions(ifi.Cond, s.idx, 0) {
					test[b] = true
					continue
				}
				base, neg := an.CondBase(ifi.Cond)
				if bo, ok := base.(*ssa.BinOp); ok && (bo.Op == token.EQL || bo.Op == token.NEQ) {
					other, k := bo.X, bo.Y
					if _, isConst := other.(*ssa.Const); isConst {
						other, k = bo.Y, bo.X
					}
					if ks, ok := constStringOf(k); ok && ks == "" && s.kind == "remove" {
						if _, isConst := an.Strip(other).(*ssa.Const); !isConst && requestedTag(other, map[ssa.Value]bool{}) {
							emptySucc := 0
							if bo.Op == token.NEQ {
								emptySucc = 1
							}
							if neg {
								emptySucc = 1 - emptySucc
							}
							cut[edge{b, emptySucc}] = true
						}
					}
				}
			}
			// is the site reachable from start without a test block and without a cut edge?
			seen := map[*ssa.BasicBlock]bool{}
			var reach func(b *ssa.BasicBlock) bool
			reach = func(b *ssa.BasicBlock) bool {
				if b == s.block {
					return true
				}
				if seen[b] || test[b] {
					return false
				}
				seen[b] = true
				for i, x := range b.Succs {
					if cut[edge{b, i}] {
						continue
					}
					if reach(x) {
						return true
					}
				}
				return false
			}
			unguarded := false
			if test[start] {
				unguarded = false
			} else {
				unguarded = reach(start)
			}
			// the position may come out of a finder method of the index (mi := i.findCompatible(…)): every position the
			// finder hands out was chosen behind a test of that entry's annotations, inside the finder
			if unguarded {
				if fc, _ := an.CallOf(an.Origin(s.idx)); fc != nil {
					if h := fc.Call.StaticCallee(); h != nil && h != fn && len(h.Blocks) > 0 && h.Signature.Recv() != nil && len(fc.Call.Args) > 0 && fc.Call.Args[0] == ssa.Value(recv) && h.Signature.Results().Len() == 1 {
						hf := mkFrame(h)
						okAll, nPos := true, 0
						an.Instrs(h, func(in ssa.Instruction) {
							ret, isRet := in.(*ssa.Return)
							if !isRet || len(ret.Results) != 1 {
								return
							}
							if k, isC := an.ConstInt(ret.Results[0]); isC && k < 0 {
								return
							}
							nPos++
							guarded := false
							for _, g := range an.GuardingEdges(ret.Block()) {
								if !g.Synthetic() && hf.mentions(g.If().Cond, ret.Results[0], 0) {
									guarded = true
								}
							}
							if !guarded {
								okAll = false
							}
						})
						if okAll && nPos > 0 {
							unguarded = false
						}
					}
				}
			}
			// the ‘no tag requested’ decision may have been taken by the caller: an unexported step every call of which
			// sits behind that edge in a method of the index
			if unguarded && s.kind == "remove" && onlyOnEmptyTagEdge(c, fn, refName) {
				unguarded = false
			}
			c.Check(!unguarded, key, s.at.Pos(), "%s of an index entry in %s at %s happens only after the annotations of that entry were examined (or on the ‘no tag requested’ edge of a removal by digest): %v — otherwise an entry is dropped on the digest alone and a tag that was never deleted or moved disappears from the listing and from pulls by tag", s.kind, c.P.FuncName(fn), c.P.Pos(s.at.Pos()), !unguarded)
		}
	}
	if sites == 0 {
		c.Unresolved("sites", "no in-place edit of Index.Manifests found in the methods of types.Index")
	}
}

// requestedTagIn: v is "" or the ref-name annotation of a (non-receiver) parameter on every path
// (isReq decides which parameter of the frame the value lives in is ‘the requested descriptor’: in fn a
// non-receiver parameter; in an accessor of the package called on that descriptor, the parameter it is passed as)
func requestedTagIn(fn *ssa.Function, refName string, v ssa.Value, seen map[ssa.Value]bool, isReq func(*ssa.Parameter) bool, depth int) bool {
	v = an.Strip(v)
	if seen[v] {
		return true
	}
	seen[v] = true
	switch x := v.(type) {
	case *ssa.Const:
		s, ok := an.ConstString(x)
		return ok && s == ""
	case *ssa.Phi:
		for _, e := range x.Edges {
			if !requestedTagIn(fn, refName, e, seen, isReq, depth) {
				return false
			}
		}
		return true
	case *ssa.Lookup:
		k, ok := constStringOf(x.Index)
		if !ok || k != refName {
			return false
		}
		root, pth := accessPath(an.Strip(x.X))
		p, isParam := root.(*ssa.Parameter)
		return isParam && isReq(p) && pathEq(pth, "Annotations")
	case *ssa.Extract, *ssa.Call:
		// an accessor of the package applied to the requested descriptor: (tag, subject) := d.refAnnotations()
		if depth > 2 {
			return false
		}
		hr := an.HelperReturns(v, func(h *ssa.Function) bool { return core.FuncPkgPath(h) == core.FuncPkgPath(fn) })
		if len(hr) == 0 {
			return false
		}
		for _, r := range hr {
			r := r
			inner := func(q *ssa.Parameter) bool {
				for i, hp := range r.Callee.Params {
					if hp == q && i < len(r.Call.Call.Args) {
						root, pth := accessPath(an.Strip(r.Call.Call.Args[i]))
						if al, isAlloc := root.(*ssa.Alloc); isAlloc {
							if st := an.SingleStore(al); st != nil {
								root = an.Strip(st)
							}
						}
						op, isParam := root.(*ssa.Parameter)
						return isParam && len(pth) == 0 && isReq(op)
					}
				}
				return false
			}
			if !requestedTagIn(fn, refName, r.Val, map[ssa.Value]bool{}, inner, depth+1) {
				return false
			}
		}
		return true
	}
	return false
}

// emptyTagEdges: the edges of g on which the tag of the requested descriptor (a non-receiver parameter) is empty.
func emptyTagEdges(g *ssa.Function, refName string) map[[2]int]bool {
	out := map[[2]int]bool{}
	if len(g.Params) == 0 {
		return out
	}
	recv := g.Params[0]
	for _, b := range g.Blocks {
		ifi := an.BlockIf(b)
		if ifi == nil {
			continue
		}
		base, neg := an.CondBase(ifi.Cond)
		bo, ok := base.(*ssa.BinOp)
		if !ok || (bo.Op != token.EQL && bo.Op != token.NEQ) {
			continue
		}
		other, k := bo.X, bo.Y
		if _, isConst := other.(*ssa.Const); isConst {
			other, k = bo.Y, bo.X
		}
		if ks, ok := constStringOf(k); !ok || ks != "" {
			continue
		}
		if _, isConst := an.Strip(other).(*ssa.Const); isConst {
			continue
		}
		if !requestedTagIn(g, refName, other, map[ssa.Value]bool{}, func(p *ssa.Parameter) bool { return p != recv }, 0) {
			continue
		}
		emptySucc := 0
		if bo.Op == token.NEQ {
			emptySucc = 1
		}
		if neg {
			emptySucc = 1 - emptySucc
		}
		out[[2]int{b.Index, emptySucc}] = true
	}
	return out
}

// onlyOnEmptyTagEdge: fn is an unexported method every call of which sits in a method of the same receiver type, on the
// receiver of that method, at a place the method's entry reaches only across a ‘requested tag is empty’ edge.
func onlyOnEmptyTagEdge(c *core.Ctx, fn *ssa.Function, refName string) bool {
	obj, _ := fn.Object().(*types.Func)
	if obj == nil || obj.Exported() || fn.Signature.Recv() == nil {
		return false
	}
	callers := c.P.Callers(fn)
	if len(callers) == 0 {
		return false
	}
	for _, site := range callers {
		g := site.Parent()
		if g == nil || g == fn || g.Signature.Recv() == nil || len(g.Params) == 0 || !types.Identical(g.Signature.Recv().Type(), fn.Signature.Recv().Type()) {
			return false
		}
		if site.Common().StaticCallee() != fn || len(site.Common().Args) == 0 || site.Common().Args[0] != ssa.Value(g.Params[0]) {
			return false
		}
		if _, isCall := site.(*ssa.Call); !isCall {
			return false
		}
		cut := emptyTagEdges(g, refName)
		seen := map[*ssa.BasicBlock]bool{}
		var reach func(b *ssa.BasicBlock) bool
		reach = func(b *ssa.BasicBlock) bool {
			if b == site.Block() {
				return true
			}
			if seen[b] {
				return false
			}
			seen[b] = true
			for i, x := range b.Succs {
				if cut[[2]int{b.Index, i}] {
					continue
				}
				if reach(x) {
					return true
				}
			}
			return false
		}
		if reach(g.Blocks[0]) {
			return false
		}
	}
	return true
}

// removerMethod: h is a pointer-receiver method that shortens a slice field of its receiver after overwriting the
// element at a position given by one of its parameters. Returns that parameter's index in the argument list.
func removerMethod(h *ssa.Function) (int, bool) {
	if h == nil || len(h.Blocks) == 0 || h.Signature.Recv() == nil || len(h.Params) < 2 {
		return 0, false
	}
	recv := h.Params[0]
	shrinks := false
	idxParam := -1
	an.Instrs(h, func(in ssa.Instruction) {
		st, ok := in.(*ssa.Store)
		if !ok {
			return
		}
		if fa, ok := st.Addr.(*ssa.FieldAddr); ok && fa.X == ssa.Value(recv) {
			if sl, ok := st.Val.(*ssa.Slice); ok && sl.High != nil && sl.Low == nil {
				if stt, ok := an.Deref(fa.X.Type()).Underlying().(*types.Struct); ok && stt.Field(fa.Field).Name() == "Manifests" {
					shrinks = true
				}
			}
		}
		if ia, ok := st.Addr.(*ssa.IndexAddr); ok {
			for k, p := range h.Params {
				if k > 0 && an.Origin(ia.Index) == ssa.Value(p) {
					idxParam = k
				}
			}
		}
	})
	return idxParam, shrinks && idxParam > 0
}

// listRemover: h takes a slice and a position, overwrites the element at the position and returns the slice shortened.
func listRemover(h *ssa.Function) (int, int, bool) {
	if h == nil || len(h.Blocks) == 0 || h.Signature.Results().Len() != 1 {
		return 0, 0, false
	}
	if recv := h.Signature.Recv(); recv != nil {
		// a method of a named list type: the receiver is the list
		if _, isSlice := recv.Type().Underlying().(*types.Slice); !isSlice {
			return 0, 0, false
		}
	}
	li, pi := -1, -1
	an.Instrs(h, func(in ssa.Instruction) {
		switch x := in.(type) {
		case *ssa.Store:
			if ia, ok := x.Addr.(*ssa.IndexAddr); ok {
				for k, p := range h.Params {
					if an.Origin(ia.X) == ssa.Value(p) {
						li = k
					}
					if an.Origin(ia.Index) == ssa.Value(p) {
						pi = k
					}
				}
			}
		}
	})
	if li < 0 || pi < 0 {
		return 0, 0, false
	}
	ok := false
	an.Instrs(h, func(in ssa.Instruction) {
		if ret, isRet := in.(*ssa.Return); isRet && len(ret.Results) == 1 {
			if sl, isSl := an.Strip(ret.Results[0]).(*ssa.Slice); isSl && sl.High != nil && sl.Low == nil && an.Origin(sl.X) == ssa.Value(h.Params[li]) {
				ok = true
			}
		}
	})
	return li, pi, ok
}

// stripChangeType looks through conversions between a named slice type and its underlying type.
func stripChangeType(v ssa.Value) ssa.Value {
	for i := 0; i < 4; i++ {
		ct, ok := v.(*ssa.ChangeType)
		if !ok {
			return v
		}
		v = ct.X
	}
	return v
}
