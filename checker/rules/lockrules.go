package rules

import (
	"fmt"
	"sort"
	"strings"

	"olacheck/core"
	"olacheck/lock"
)

func getLock(c *core.Ctx) *lock.Engine {
	return core.Memo(c, "lock", func() *lock.Engine {
		r := getRoles(c)
		e := lock.New(c.P, r)
		e.Run([]string{r.RootPath, r.StorePath, r.CachePath, r.CmdPath})
		return e
	})
}

// DumpLocks prints the lock engine's tables (debugging aid).
func DumpLocks(c *core.Ctx) {
	e := getLock(c)
	fmt.Printf("classes (%d):\n", len(e.Classes))
	for i, cl := range e.Classes {
		fmt.Printf("  %2d %-8s %s\n", i, cl.Kind, cl.Name)
	}
	fmt.Printf("roots (%d): contexts=%d funcs=%d\n", len(e.Roots), e.Contexts, e.FuncsAnalysed())
	for _, r := range e.Roots {
		fmt.Printf("  %s\n", r)
	}
	fmt.Println("edges:")
	var keys [][2]int
	for k := range e.Edges {
		keys = append(keys, k)
	}
	sort.Slice(keys, func(i, j int) bool {
		if keys[i][0] != keys[j][0] {
			return keys[i][0] < keys[j][0]
		}
		return keys[i][1] < keys[j][1]
	})
	for _, k := range keys {
		var sites []string
		for s := range e.Edges[k] {
			sites = append(sites, s)
		}
		sort.Strings(sites)
		fmt.Printf("  %s -> %s   [%s]\n", e.Classes[k[0]].Name, e.Classes[k[1]].Name, strings.Join(sites, "; "))
	}
	fmt.Println("self acquisitions:")
	for k, s := range e.Selfs {
		fmt.Printf("  %s at %s chain %s\n", k, c.P.Pos(s.Pos), s.Chain)
	}
	fmt.Println("leaks:")
	for k := range e.Leaks {
		fmt.Printf("  %s\n", k)
	}
	fmt.Println("exit disagreements:")
	for k, v := range e.ExitDiff {
		fmt.Printf("  %s: %s\n", k, v)
	}
	fmt.Println("lockset:")
	reps := e.Lockset()
	sort.Slice(reps, func(i, j int) bool { return reps[i].Field < reps[j].Field })
	for _, fr := range reps {
		fmt.Printf("  %-55s r=%d w=%d postw=%d common=%v guard=%s bad=%d\n", fr.Field, fr.Reads, fr.Writes, fr.PostWrites, fr.Common, fr.Guard, len(fr.Bad))
		for _, b := range fr.Bad {
			fmt.Printf("      bad: write=%v held=%v %s %s root=%s\n", b.Write, e.HeldNames(b.Held), b.Func, c.P.Pos(b.Pos), b.Root)
		}
	}
	fmt.Println("token ops:")
	for _, t := range e.TokenOps {
		fmt.Printf("  %s %s select=%v cancel=%v blocking=%v %s\n", e.Classes[t.Class].Name, t.Func, t.InSelect, t.Cancelable, t.Blocking, c.P.Pos(t.Pos))
	}
	fmt.Println("hold adds:")
	for _, h := range e.HoldAdds {
		fmt.Printf("  %s %s held=%v unpub=%v %s\n", e.Classes[h.Class].Name, h.Func, e.HeldNames(h.Held), h.Unpub, c.P.Pos(h.Pos))
	}
	fmt.Println("waits:")
	for _, w := range e.Waits {
		fmt.Printf("  %s %s held=%v %s\n", e.Classes[w.Class].Name, w.Func, e.HeldNames(w.Held), c.P.Pos(w.Pos))
	}
	for _, n := range e.Notes {
		fmt.Println("note:", n)
	}
}

// Dump dispatches debugging dumps.
func Dump(c *core.Ctx, what string) {
	switch what {
	case "locks":
		DumpLocks(c)
	}
}

func init() {
	_ = fmt.Sprint
}
