package rules

import (
	"fmt"
	"go/ast"
	"go/token"
	"go/types"
	"regexp"
	"regexp/syntax"
	"sort"
	"strings"

	"olacheck/core"
)

// TB-GRAMMAR: the two grammars every reference passes through — the tag grammar (types.RefTagRE) and the repository
// name grammar (the router's rePath) — accept exactly the language of the OCI distribution specification.  The
// regular expressions are evaluated from the source (constant folding of the pattern) and compared with the
// specification's own expressions on a probe set that decides a grammar of this shape: every code point of the first
// three planes in first and in inner position, every length around the bounds, and every string up to a small length
// over an alphabet with one representative of each class the grammars distinguish (plus the code points that fold to
// ASCII letters under Unicode case folding).

const (
	ociTagGrammar  = `^[a-zA-Z0-9_][a-zA-Z0-9._-]{0,127}$`
	ociNameGrammar = `^[a-z0-9]+((\.|_|__|-+)[a-z0-9]+)*(\/[a-z0-9]+((\.|_|__|-+)[a-z0-9]+)*)*$`
)

func init() {
	register(&Rule{ID: "TB-GRAMMAR", Floor: 2,
		Doc: "the tag grammar (types.RefTagRE) and the repository-name grammar (rePath) accept exactly the language of the OCI specification's expressions: decided by evaluating both on every code point (first and inner position), every length around the bounds and every short string over a representative alphabet — a widened grammar accepts references the specification (and the directory layout) rules out, a narrowed one refuses valid ones",
		Run: func(c *core.Ctx) {
			type g struct {
				key, pkg, varName, spec string
				tag                     string
			}
			for _, x := range []g{
				{"tag", "types", "RefTagRE", ociTagGrammar, "tag"},
				{"repository-name", "", "rePath", ociNameGrammar, "name"},
			} {
				pk := pkgOf(c, x.pkg)
				if pk == nil {
					c.Unresolved("grammar:"+x.key, "package not found")
					continue
				}
				init := pkgVarInit(pk, x.varName)
				src := ""
				if call, ok := init.(*ast.CallExpr); ok && len(call.Args) == 1 {
					if s, ok := evalStringExpr(pk, call.Args[0], 0); ok {
						src = s
					}
				}
				if src == "" {
					c.Unresolved("grammar:"+x.key, "the pattern of %s could not be evaluated from the source", x.varName)
					continue
				}
				c.SetTags(x.tag)
				re, err := regexp.Compile(src)
				if err != nil {
					c.Fail("grammar:"+x.key, init.Pos(), "%s does not compile: %v", x.varName, err)
					continue
				}
				spec := regexp.MustCompile(x.spec)
				diff := ""
				n := 0
				probe := func(s string) {
					n++
					if diff == "" && re.MatchString(s) != spec.MatchString(s) {
						verb := "accepts"
						if !re.MatchString(s) {
							verb = "refuses"
						}
						diff = fmt.Sprintf("%s %s %q (the specification's grammar does not)", x.varName, verb, s)
						if !re.MatchString(s) {
							diff = fmt.Sprintf("%s refuses %q (the specification's grammar accepts it)", x.varName, s)
						}
					}
				}
				// every code point, first and inner position, and after a separator
				for r := rune(0); r < 0x30000; r++ {
					if r >= 0xD800 && r <= 0xDFFF {
						continue
					}
					s := string(r)
					probe(s)
					probe("a" + s)
					probe("a" + s + "a")
					probe("a/" + s)
				}
				// lengths around the bounds
				for l := 0; l <= 130; l++ {
					probe(strings.Repeat("a", l))
					probe("a" + strings.Repeat(".", l))
				}
				for l := 250; l <= 260; l++ {
					probe(strings.Repeat("a", l))
				}
				// short strings over a representative alphabet
				alpha := []string{"a", "A", "0", ".", "_", "-", "/", "K", "ſ", "\n"}
				var gen func(prefix string, depth int)
				gen = func(prefix string, depth int) {
					probe(prefix)
					if depth == 0 {
						return
					}
					for _, a := range alpha {
						gen(prefix+a, depth-1)
					}
				}
				gen("", 5)
				c.Check(diff == "", "grammar:"+x.key, init.Pos(), "%s", map[bool]string{true: fmt.Sprintf("%s = %s agrees with the specification's grammar on %d probes", x.varName, src, n), false: diff}[diff == ""])
			}
			// every pattern of the module written to match whole strings (it starts with ^ and ends with $) does so in each
			// of its alternatives: `^a|b$` anchors the first alternative at the start only and the second at the end only
			c.SetTags("anchor")
			var pkPaths []string
			for pp := range c.P.All {
				pkPaths = append(pkPaths, pp)
			}
			sort.Strings(pkPaths)
			for _, pp := range pkPaths {
				pk := c.P.All[pp]
				for _, f := range pk.Syntax {
					if strings.HasSuffix(c.P.Fset.Position(f.Pos()).Filename, "_test.go") {
						continue
					}
					for _, d := range f.Decls {
						gd, ok := d.(*ast.GenDecl)
						if !ok || gd.Tok != token.VAR {
							continue
						}
						for _, sp := range gd.Specs {
							vs, ok := sp.(*ast.ValueSpec)
							if !ok {
								continue
							}
							for i, nm := range vs.Names {
								if i >= len(vs.Values) {
									continue
								}
								call, ok := vs.Values[i].(*ast.CallExpr)
								if !ok || len(call.Args) != 1 {
									continue
								}
								if fn, ok := typeutilCallee(pk, call).(*types.Func); !ok || fn.Pkg() == nil || fn.Pkg().Path() != "regexp" || !strings.Contains(fn.Name(), "Compile") {
									continue
								}
								src, ok := evalStringExpr(pk, call.Args[0], 0)
								if !ok || !strings.HasPrefix(src, "^") || !strings.HasSuffix(src, "$") || strings.HasSuffix(src, `\$`) {
									continue
								}
								re, err := syntax.Parse(src, syntax.Perl)
								if err != nil {
									continue
								}
								key := "anchored:" + pk.Types.Name() + "." + nm.Name
								okA := reBegins(re) && reEnds(re)
								c.Check(okA, key, call.Pos(), "%s = %s is anchored at both ends in every alternative: %v — an alternation that splits the anchors matches strings that only start or only end like the pattern", nm.Name, src, okA)
							}
						}
					}
				}
			}
			c.SetTags()
		}})
}

func reBegins(re *syntax.Regexp) bool {
	switch re.Op {
	case syntax.OpBeginText:
		return true
	case syntax.OpConcat, syntax.OpCapture:
		return len(re.Sub) > 0 && reBegins(re.Sub[0])
	case syntax.OpAlternate:
		for _, s := range re.Sub {
			if !reBegins(s) {
				return false
			}
		}
		return len(re.Sub) > 0
	}
	return false
}

func reEnds(re *syntax.Regexp) bool {
	switch re.Op {
	case syntax.OpEndText:
		return true
	case syntax.OpConcat, syntax.OpCapture:
		return len(re.Sub) > 0 && reEnds(re.Sub[len(re.Sub)-1])
	case syntax.OpAlternate:
		for _, s := range re.Sub {
			if !reEnds(s) {
				return false
			}
		}
		return len(re.Sub) > 0
	}
	return false
}

var _ = token.NoPos
