package rules

import (
	"fmt"
	"path/filepath"
	"sort"
	"strings"
	"time"

	"olacheck/core"
)

// RunOpts configures a run.
type RunOpts struct {
	Repo, Verif   string
	Tier          string
	Seed          int
	Verbose       bool
	WriteEvidence bool
	Findings      *core.FindingsFile
	OnlyRule      string // replay: restrict to one rule
	OnlyKey       string
	// Extra holds per-property additions to the evidence coverage (the sensitivity self-test of the thorough tier).
	Extra map[string]map[string]any
	// Start is when the run began (the self-test of the thorough tier runs before the rules); zero = now.
	Start time.Time
}

type buildCtx struct {
	Name string
	Env  []string
}

// RunProperties analyses the repository and judges every requested property.  It returns the ids of
// the properties with violations.
func RunProperties(props []string, o RunOpts) (bad []string) {
	ctxs := []buildCtx{{Name: "default"}}
	if o.Tier == "thorough" {
		// cover the files other build contexts select (godbg_other.go, 32-bit int)
		ctxs = append(ctxs, buildCtx{Name: "GOOS=windows", Env: []string{"GOOS=windows", "CGO_ENABLED=0"}},
			buildCtx{Name: "GOARCH=386", Env: []string{"GOARCH=386", "CGO_ENABLED=0"}})
	}
	type propRun struct {
		obs      []core.Ob
		notes    []string
		ruleStat map[string][2]int
		ctxNames []string
		stats    map[string]int
	}
	runs := map[string]*propRun{}
	for _, id := range props {
		runs[id] = &propRun{ruleStat: map[string][2]int{}, stats: map[string]int{}}
	}
	t0 := time.Now()
	if !o.Start.IsZero() {
		t0 = o.Start
	}
	var loadErr error
	for _, bc := range ctxs {
		p, err := core.Load(core.LoadConfig{Dir: o.Repo, Env: bc.Env})
		if err != nil {
			loadErr = fmt.Errorf("build context %s: %w", bc.Name, err)
			break
		}
		c := core.NewCtx(p)
		edges := 0
		for _, n := range p.CG.Nodes {
			edges += len(n.Out)
		}
		ruleObs := map[string][]core.Ob{}
		for _, id := range props {
			pr := runs[id]
			pr.ctxNames = append(pr.ctxNames, bc.Name)
			pr.stats["packages"] = len(p.All)
			pr.stats["module_functions"] = len(p.ModFuncs)
			pr.stats["all_functions"] = len(p.AllFuncs)
			pr.stats["callgraph_edges"] = edges
			for _, spec := range GetProperty(id).Rules {
				rid, tag := splitSpec(spec)
				if o.OnlyRule != "" && rid != o.OnlyRule {
					continue
				}
				obs, done := ruleObs[rid]
				if !done {
					obs = append([]core.Ob(nil), RunRule(c, rid)...)
					ruleObs[rid] = obs
				}
				selected := 0
				for _, ob := range obs {
					if tag != "" && !ob.HasTag(tag) && ob.Kind != "vacuous" && ob.Kind != "unresolved-role" && !(ob.Kind == "undecided" && ob.Key == "panic") {
						continue
					}
					selected++
					if o.OnlyKey != "" && ob.Key != o.OnlyKey {
						continue
					}
					if bc.Name != "default" {
						ob.Detail = "[" + bc.Name + "] " + ob.Detail
					}
					pr.obs = append(pr.obs, ob)
				}
				if tag != "" && selected == 0 && o.OnlyKey == "" {
					pr.obs = append(pr.obs, core.Ob{Rule: rid, Key: "view:" + tag, OK: false, Kind: "vacuous", Pos: "-",
						Detail: "no obligation of rule " + rid + " carries the tag ‘" + tag + "’: the clause this property claims no longer resolves"})
				}
			}
		}
		for _, id := range props {
			runs[id].notes = append(runs[id].notes, c.Notes...)
		}
	}
	for _, id := range props {
		pr := runs[id]
		prop := GetProperty(id)
		if loadErr != nil {
			pr.obs = append(pr.obs, core.Ob{Rule: "LOAD", Key: "load", OK: false, Kind: "undecided", Pos: "-", Detail: loadErr.Error()})
		}
		// de-duplicate obligations repeated across build contexts (keep a failing instance if any)
		core.SortObs(pr.obs)
		var obs []core.Ob
		idx := map[string]int{}
		for _, ob := range pr.obs {
			k := ob.Rule + "|" + ob.Key
			if i, ok := idx[k]; ok {
				if obs[i].OK && !ob.OK {
					obs[i] = ob
				}
				continue
			}
			idx[k] = len(obs)
			obs = append(obs, ob)
		}
		fmt.Printf("== %s (%s tier) rules: %s\n", id, o.Tier, strings.Join(prop.Rules, " "))
		out := core.Judge(id, obs, o.Findings, o.Verif, o.Repo)
		total, okN, exc := 0, 0, 0
		perRule := map[string][3]int{}
		for _, ob := range obs {
			total++
			st := perRule[ob.Rule]
			st[0]++
			if ob.OK {
				okN++
				st[1]++
			}
			if ob.Kind == "exception" {
				exc++
				st[2]++
			}
			perRule[ob.Rule] = st
			if o.Verbose {
				fmt.Printf("   %-5v %-18s %-60s %s %s\n", ob.OK, ob.Rule, ob.Key, ob.Pos, ob.Detail)
			}
		}
		var ruleRows []map[string]any
		for _, spec := range prop.Rules {
			rid, tag := splitSpec(spec)
			_ = tag
			r := GetRule(rid)
			doc, floor := "", 0
			if r != nil {
				doc, floor = r.Doc, r.Floor
			}
			st := perRule[rid]
			ruleRows = append(ruleRows, map[string]any{"rule": spec, "applied": doc, "instances": st[0], "discharged": st[1], "exceptions": st[2], "floor": floor})
			fmt.Printf("   %-20s instances=%-4d discharged=%-4d floor=%d\n", rid, st[0], st[1], floor)
		}
		// samples: all failing obligations, all exceptions, and a spread of passing ones
		var samples []core.Ob
		for _, ob := range obs {
			if !ob.OK || ob.Kind == "exception" {
				samples = append(samples, ob)
			}
		}
		seenRule := map[string]int{}
		for _, ob := range obs {
			if ob.OK && ob.Kind == "" && seenRule[ob.Rule] < 6 {
				seenRule[ob.Rule]++
				samples = append(samples, ob)
			}
		}
		var known []string
		for _, k := range out.Known {
			known = append(known, k.Rule+"|"+k.Key)
		}
		sort.Strings(known)
		cov := map[string]any{
			"explanation": "Static analysis of the type-checked SSA form of the repository's current working tree (no code of the repository is executed). " +
				"Decided: " + prop.Decided + "  Not decided: " + prop.NotDecided,
			"obligations":    total,
			"discharged":     okN,
			"known_findings": known,
			"rules":          ruleRows,
			"samples":        samples,
			"build_contexts": pr.ctxNames,
			"program":        pr.stats,
			"notes":          dedupe(pr.notes),
			"exhaustive":     true,
			"checker_cmd":    fmt.Sprintf("%s/bin/olacheck -prop %s -tier %s", o.Verif, id, o.Tier),
		}
		for k, v := range o.Extra[id] {
			cov[k] = v
		}
		ev := core.Evidence{PropertyID: id, Tier: o.Tier, Seed: o.Seed, Level: "other", Coverage: cov,
			Assumptions: append([]string{
				"go/types, go/ssa and the VTA call graph of golang.org/x/tools v0.29.0 represent the program faithfully",
				"lock identity is per class (type, field), not per instance; reflection, unsafe and cgo are not used by the analysed packages",
			}, prop.Assumptions...),
			WallS: time.Since(t0).Seconds(), Violations: len(out.Violations)}
		if o.WriteEvidence {
			if err := core.WriteEvidence(filepath.Join(o.Verif, "evidence", id+".json"), ev); err != nil {
				fmt.Printf("cannot write evidence: %v\n", err)
				out.Violations = append(out.Violations, core.Ob{Rule: "EVIDENCE"})
			}
		}
		fmt.Printf("   %s: %d obligations, %d discharged, %d known finding(s), %d violation(s)\n", id, total, okN, len(out.Known), len(out.Violations))
		if len(out.Violations) > 0 {
			bad = append(bad, id)
		}
	}
	return bad
}

// splitSpec splits "RULE#tag" into rule id and tag.
func splitSpec(spec string) (string, string) {
	if i := strings.Index(spec, "#"); i > 0 {
		return spec[:i], spec[i+1:]
	}
	return spec, ""
}

func dedupe(in []string) []string {
	seen := map[string]bool{}
	out := []string{}
	for _, s := range in {
		if !seen[s] {
			seen[s] = true
			out = append(out, s)
		}
	}
	return out
}

// AnalyseQuiet loads the repository (with an optional in-memory overlay), runs the rules of the given
// properties with their views, and returns the obligations per property without printing anything.
func AnalyseQuiet(repo string, overlay map[string][]byte, props []string) (map[string][]core.Ob, error) {
	p, err := core.Load(core.LoadConfig{Dir: repo, Overlay: overlay})
	if err != nil {
		return nil, err
	}
	c := core.NewCtx(p)
	ruleObs := map[string][]core.Ob{}
	out := map[string][]core.Ob{}
	for _, id := range props {
		prop := GetProperty(id)
		if prop == nil {
			continue
		}
		for _, spec := range prop.Rules {
			rid, tag := splitSpec(spec)
			obs, done := ruleObs[rid]
			if !done {
				obs = append([]core.Ob(nil), RunRule(c, rid)...)
				ruleObs[rid] = obs
			}
			selected := 0
			for _, ob := range obs {
				if tag != "" && !ob.HasTag(tag) && ob.Kind != "vacuous" && ob.Kind != "unresolved-role" && !(ob.Kind == "undecided" && ob.Key == "panic") {
					continue
				}
				selected++
				out[id] = append(out[id], ob)
			}
			if tag != "" && selected == 0 {
				out[id] = append(out[id], core.Ob{Rule: rid, Key: "view:" + tag, OK: false, Kind: "vacuous", Pos: "-", Detail: "empty view"})
			}
		}
	}
	return out, nil
}
