package selftest

import (
	"encoding/json"
	"fmt"
	"os"
	"os/exec"
	"path/filepath"
	"sort"
	"strings"
	"sync"

	"olacheck/core"
	"olacheck/rules"
)

// Result of analysing one mutant.
type Result struct {
	ID       string              `json:"id"`
	Benign   bool                `json:"benign"`
	Applies  bool                `json:"applies"`
	Loads    bool                `json:"loads"`
	Error    string              `json:"error,omitempty"`
	NewFails map[string][]string `json:"new_failures"` // property -> "RULE|key"
	Note     string              `json:"note"`
	Expected []string            `json:"expected_rules"`
	Props    []string            `json:"props"`
}

// Find returns the mutant with the given id.
func Find(id string) *Mutant {
	for i := range Mutants {
		if Mutants[i].ID == id {
			return &Mutants[i]
		}
	}
	return nil
}

// overlayFor builds the overlay; ok=false when an anchor text does not occur exactly once.
func overlayFor(repo string, m *Mutant) (map[string][]byte, bool) {
	edits := append([]Edit{{m.File, m.Old, m.New}}, m.More...)
	files := map[string]string{}
	for _, e := range edits {
		path := filepath.Join(repo, e.File)
		src, ok := files[path]
		if !ok {
			b, err := os.ReadFile(path)
			if err != nil {
				return nil, false
			}
			src = string(b)
		}
		if strings.Count(src, e.Old) != 1 {
			return nil, false
		}
		files[path] = strings.Replace(src, e.Old, e.New, 1)
	}
	out := map[string][]byte{}
	for k, v := range files {
		out[k] = []byte(v)
	}
	return out, true
}

// RunOne analyses one mutant in this process.
func RunOne(repo, verif string, m *Mutant) Result {
	res := Result{ID: m.ID, Benign: m.Benign, Note: m.Note, Expected: m.Rules, Props: m.Props, NewFails: map[string][]string{}}
	ov, ok := overlayFor(repo, m)
	if !ok {
		return res
	}
	res.Applies = true
	props := m.Props
	if m.Benign {
		props = rules.PropertyIDs()
	}
	obs, err := rules.AnalyseQuiet(repo, ov, props)
	if err != nil {
		res.Error = err.Error()
		return res
	}
	res.Loads = true
	ff, err := core.LoadFindings(filepath.Join(verif, "known_findings.json"))
	if err != nil {
		ff = &core.FindingsFile{}
	}
	for prop, l := range obs {
		seen := map[string]bool{}
		for _, o := range l {
			if o.OK || ff.Known(prop, o.Rule, o.Key) != nil {
				continue
			}
			k := o.Rule + "|" + o.Key
			if !seen[k] {
				seen[k] = true
				res.NewFails[prop] = append(res.NewFails[prop], k)
			}
		}
		sort.Strings(res.NewFails[prop])
	}
	return res
}

// RunAll runs every mutant relevant to the given properties (and all benign edits) in child processes,
// at most `par` at a time, and returns the results by mutant id.
func RunAll(self, repo, verif string, props []string, par int) []Result {
	want := map[string]bool{}
	for _, p := range props {
		want[p] = true
	}
	var todo []*Mutant
	for i := range Mutants {
		m := &Mutants[i]
		if m.Benign {
			todo = append(todo, m)
			continue
		}
		for _, p := range m.Props {
			if want[p] {
				todo = append(todo, m)
				break
			}
		}
	}
	results := make([]Result, len(todo))
	sem := make(chan struct{}, par)
	var wg sync.WaitGroup
	for i, m := range todo {
		wg.Add(1)
		go func(i int, m *Mutant) {
			defer wg.Done()
			sem <- struct{}{}
			defer func() { <-sem }()
			cmd := exec.Command(self, "-mutant", m.ID, "-repo", repo, "-verif", verif)
			cmd.Env = os.Environ()
			out, err := cmd.Output()
			var r Result
			if jerr := json.Unmarshal(out, &r); jerr != nil {
				r = Result{ID: m.ID, Benign: m.Benign, Note: m.Note, Expected: m.Rules, Props: m.Props, Error: fmt.Sprintf("child failed: %v %v", err, jerr)}
			}
			results[i] = r
		}(i, m)
	}
	wg.Wait()
	return results
}

// Summarise builds the per-property sensitivity section of the evidence.
func Summarise(results []Result, prop string) map[string]any {
	var rows []map[string]any
	total, detected, byExpected, na := 0, 0, 0, 0
	benignTotal, benignQuiet := 0, 0
	var falseAlarms []string
	for _, r := range results {
		if r.Benign {
			if !r.Applies {
				continue
			}
			benignTotal++
			if len(r.NewFails[prop]) == 0 && r.Error == "" {
				benignQuiet++
			} else {
				falseAlarms = append(falseAlarms, fmt.Sprintf("%s: %v %s", r.ID, r.NewFails[prop], r.Error))
			}
			continue
		}
		relevant := false
		for _, p := range r.Props {
			if p == prop {
				relevant = true
			}
		}
		if !relevant {
			continue
		}
		row := map[string]any{"mutant": r.ID, "edit": r.Note, "expected_rules": r.Expected}
		switch {
		case !r.Applies:
			na++
			row["verdict"] = "edit no longer applies (anchor text not found exactly once)"
		case !r.Loads:
			na++
			row["verdict"] = "edited program does not type-check: " + r.Error
		default:
			total++
			fails := r.NewFails[prop]
			row["reported"] = fails
			if len(fails) > 0 {
				detected++
				exp := false
				for _, f := range fails {
					for _, e := range r.Expected {
						if strings.HasPrefix(f, e+"|") {
							exp = true
						}
					}
				}
				if exp {
					byExpected++
					row["verdict"] = "detected by the expected rule"
				} else {
					row["verdict"] = "detected (by another rule)"
				}
			} else {
				row["verdict"] = "NOT DETECTED under this property"
			}
		}
		rows = append(rows, row)
	}
	return map[string]any{
		"sensitivity": map[string]any{
			"what":                  "seeded edits of /repo's source applied in memory (go/packages overlay); the program is re-analysed and the property's rules must report the edit. This measures the checker, not /repo.",
			"mutants_applied":       total,
			"detected":              detected,
			"detected_by_expected":  byExpected,
			"not_applicable":        na,
			"benign_edits_applied":  benignTotal,
			"benign_edits_silent":   benignQuiet,
			"benign_edits_reported": falseAlarms,
			"details":               rows,
		},
	}
}
