package an

import (
	"go/token"
	"go/types"

	"golang.org/x/tools/go/ssa"
)

// CondBase strips logical negations from a branch condition.
func CondBase(v ssa.Value) (ssa.Value, bool) {
	neg := false
	for {
		u, ok := v.(*ssa.UnOp)
		if !ok || u.Op != token.NOT {
			return v, neg
		}
		v = u.X
		neg = !neg
	}
}

// BlockIf returns the If terminating b, if any.
func BlockIf(b *ssa.BasicBlock) *ssa.If {
	if len(b.Instrs) == 0 {
		return nil
	}
	i, _ := b.Instrs[len(b.Instrs)-1].(*ssa.If)
	return i
}

// NilTest decodes `x == nil` / `x != nil`; nilSucc is the successor index on which x is nil.
func NilTest(i *ssa.If) (x ssa.Value, nilSucc int, ok bool) {
	c, neg := CondBase(i.Cond)
	b, isBin := c.(*ssa.BinOp)
	if !isBin || (b.Op != token.EQL && b.Op != token.NEQ) {
		return nil, 0, false
	}
	switch {
	case IsNilConst(b.Y):
		x = b.X
	case IsNilConst(b.X):
		x = b.Y
	default:
		return nil, 0, false
	}
	eq := b.Op == token.EQL
	if neg {
		eq = !eq
	}
	if eq {
		return x, 0, true
	}
	return x, 1, true
}

// LenZeroTest decodes a comparison of len(x) with a constant that splits ‘empty’ from ‘non-empty’
// (len(x) == 0, != 0, > 0, < 1, >= 1, <= 0 and their mirrored forms); emptySucc is the successor index on
// which x is empty.
func LenZeroTest(i *ssa.If) (x ssa.Value, emptySucc int, ok bool) {
	a, b, op, isCmp := CmpTest(i)
	if !isCmp {
		return nil, 0, false
	}
	lenArg := func(v ssa.Value) ssa.Value {
		c, isCall := Strip(v).(*ssa.Call)
		if !isCall {
			return nil
		}
		if bi, isB := c.Call.Value.(*ssa.Builtin); isB && bi.Name() == "len" && len(c.Call.Args) == 1 {
			return c.Call.Args[0]
		}
		return nil
	}
	if lenArg(a) == nil && lenArg(b) != nil {
		// mirror: k op len(x)  ==  len(x) op' k
		a, b = b, a
		switch op {
		case token.LSS:
			op = token.GTR
		case token.LEQ:
			op = token.GEQ
		case token.GTR:
			op = token.LSS
		case token.GEQ:
			op = token.LEQ
		}
	}
	x = lenArg(a)
	k, isK := ConstInt(b)
	if x == nil || !isK {
		return nil, 0, false
	}
	switch {
	case (op == token.EQL && k == 0) || (op == token.LEQ && k == 0) || (op == token.LSS && k == 1):
		return x, 0, true
	case (op == token.NEQ && k == 0) || (op == token.GTR && k == 0) || (op == token.GEQ && k == 1):
		return x, 1, true
	}
	return nil, 0, false
}

// BoolCallTest decodes a condition that is (the negation of) a call result; trueSucc is the
// successor index on which the call returned true.
func BoolCallTest(i *ssa.If) (call *ssa.Call, trueSucc int, ok bool) {
	c, neg := CondBase(i.Cond)
	call, ok = c.(*ssa.Call)
	if !ok {
		return nil, 0, false
	}
	if neg {
		return call, 1, true
	}
	return call, 0, true
}

// ErrIsTest decodes `errors.Is(x, target)`.
func ErrIsTest(i *ssa.If) (x, target ssa.Value, trueSucc int, ok bool) {
	call, ts, ok := BoolCallTest(i)
	if !ok || !IsFunc(call, "errors", "Is") || len(call.Call.Args) != 2 {
		return nil, nil, 0, false
	}
	return call.Call.Args[0], call.Call.Args[1], ts, true
}

// CmpTest decodes a comparison condition `x op y` and returns the operator that holds on succ 0.
func CmpTest(i *ssa.If) (x, y ssa.Value, op token.Token, ok bool) {
	c, neg := CondBase(i.Cond)
	b, isBin := c.(*ssa.BinOp)
	if !isBin {
		return nil, nil, 0, false
	}
	op = b.Op
	if neg {
		op = NegateOp(op)
	}
	switch op {
	case token.EQL, token.NEQ, token.LSS, token.LEQ, token.GTR, token.GEQ:
		return b.X, b.Y, op, true
	}
	return nil, nil, 0, false
}

// NegateOp returns the comparison that holds when op does not.
func NegateOp(op token.Token) token.Token {
	switch op {
	case token.EQL:
		return token.NEQ
	case token.NEQ:
		return token.EQL
	case token.LSS:
		return token.GEQ
	case token.LEQ:
		return token.GTR
	case token.GTR:
		return token.LEQ
	case token.GEQ:
		return token.LSS
	}
	return token.ILLEGAL
}

// EdgeDominates reports whether every path to t passes the CFG edge b -> b.Succs[i].
func EdgeDominates(b *ssa.BasicBlock, i int, t *ssa.BasicBlock) bool {
	if len(b.Succs) != 2 || b.Succs[0] == b.Succs[1] {
		return false
	}
	s := b.Succs[i]
	if !s.Dominates(t) {
		return false
	}
	for _, p := range s.Preds {
		if p != b && !s.Dominates(p) {
			return false
		}
	}
	return true
}

// Edge is a conditional CFG edge identified by its source block and successor index.  A synthetic edge
// stands for an atomic condition implied by a real edge whose condition is a materialised `a && b` /
// `a || b` (a φ of booleans, the form go/ssa gives to the cases of a tag-less switch): If() then returns
// an If carrying the atom, and Succ is 0 when the atom is known true, 1 when known false.
type Edge struct {
	From  *ssa.BasicBlock
	Succ  int
	synth *ssa.If
}

// If returns the (real or synthetic) conditional the edge belongs to.
func (e Edge) If() *ssa.If {
	if e.synth != nil {
		return e.synth
	}
	return BlockIf(e.From)
}

// Synthetic reports whether the edge is derived from a materialised boolean expression.
func (e Edge) Synthetic() bool { return e.synth != nil }

// Decomposes reports whether the condition of a real edge is a materialised && / || whose known truth value
// is carried in full by the synthetic atom edges GuardingEdges returns beside it.
func Decomposes(e Edge) bool {
	if e.synth != nil {
		return false
	}
	ifi := BlockIf(e.From)
	return ifi != nil && len(impliedAtoms(e.From, ifi.Cond, e.Succ == 0, 0)) > 0
}

// GuardingEdges returns all conditional edges that dominate block t, including the atomic conditions
// implied by materialised && / || conditions.
func GuardingEdges(t *ssa.BasicBlock) []Edge {
	return guardingEdges(t, 0)
}

func guardingEdges(t *ssa.BasicBlock, depth int) []Edge {
	var out []Edge
	fn := t.Parent()
	for _, b := range fn.Blocks {
		ifi := BlockIf(b)
		if ifi == nil {
			continue
		}
		for i := 0; i < 2; i++ {
			if !EdgeDominates(b, i, t) {
				continue
			}
			out = append(out, Edge{From: b, Succ: i})
			if depth < 3 {
				out = append(out, impliedAtoms(b, ifi.Cond, i == 0, depth)...)
			}
		}
	}
	return out
}

// impliedAtoms decomposes a condition with a known truth value into the atoms it implies.
func impliedAtoms(from *ssa.BasicBlock, cond ssa.Value, truth bool, depth int) []Edge {
	base, neg := CondBase(cond)
	if neg {
		truth = !truth
	}
	phi, ok := base.(*ssa.Phi)
	if !ok {
		return nil
	}
	var nonConst []int
	for i, e := range phi.Edges {
		c, isConst := e.(*ssa.Const)
		if !isConst {
			nonConst = append(nonConst, i)
			continue
		}
		if c.Value == nil {
			return nil
		}
		// a short-circuit edge must carry the opposite of the known truth value
		if (c.Value.String() == "true") == truth {
			return nil
		}
	}
	if len(nonConst) != 1 {
		return nil
	}
	k := nonConst[0]
	e := phi.Edges[k]
	pred := phi.Block().Preds[k]
	var out []Edge
	// the operand itself has the known truth value
	eb, eneg := CondBase(e)
	et := truth
	if eneg {
		et = !et
	}
	if _, isPhi := eb.(*ssa.Phi); isPhi {
		out = append(out, impliedAtoms(from, e, truth, depth+1)...)
	} else {
		succ := 1
		if et {
			succ = 0
		}
		out = append(out, Edge{From: from, Succ: succ, synth: &ssa.If{Cond: eb}})
	}
	// and the conditions under which the operand was evaluated
	out = append(out, guardingEdges(pred, depth+1)...)
	return out
}

// ReachFrom visits every instruction reachable after `from` (exclusive) in the CFG.
// visit returns false to stop exploring past that instruction on the current path.
func ReachFrom(from ssa.Instruction, visit func(ssa.Instruction) bool) {
	b := from.Block()
	idx := InstrIndex(from)
	seen := map[*ssa.BasicBlock]bool{}
	var walkBlock func(b *ssa.BasicBlock, start int)
	walkBlock = func(b *ssa.BasicBlock, start int) {
		for _, in := range b.Instrs[start:] {
			if !visit(in) {
				return
			}
		}
		for _, s := range b.Succs {
			if !seen[s] {
				seen[s] = true
				walkBlock(s, 0)
			}
		}
	}
	walkBlock(b, idx+1)
}

// Reaches reports whether instruction `to` is reachable after `from`.
func Reaches(from, to ssa.Instruction) bool {
	found := false
	ReachFrom(from, func(in ssa.Instruction) bool {
		if in == to {
			found = true
		}
		return !found
	})
	return found
}

// BlockReaches reports CFG reachability between blocks (a reaches b, a != b or through a cycle).
func BlockReaches(a, b *ssa.BasicBlock) bool {
	seen := map[*ssa.BasicBlock]bool{}
	var st []*ssa.BasicBlock
	st = append(st, a.Succs...)
	for len(st) > 0 {
		x := st[len(st)-1]
		st = st[:len(st)-1]
		if seen[x] {
			continue
		}
		seen[x] = true
		if x == b {
			return true
		}
		st = append(st, x.Succs...)
	}
	return false
}

// PathSpec is a finite-state forward path analysis: states flow along every CFG path; Instr maps a
// state over one instruction to its successor states; Edge refines or kills a state on a CFG edge.
type PathSpec[S comparable] struct {
	Fn    *ssa.Function
	Init  S
	Instr func(s S, in ssa.Instruction) []S
	Edge  func(s S, from *ssa.BasicBlock, succ int) (S, bool)
}

// Paths runs the analysis and returns the states reaching the entry of every block.
func Paths[S comparable](sp PathSpec[S]) map[*ssa.BasicBlock]map[S]bool {
	in := map[*ssa.BasicBlock]map[S]bool{}
	if len(sp.Fn.Blocks) == 0 {
		return in
	}
	type item struct {
		b *ssa.BasicBlock
		s S
	}
	entry := sp.Fn.Blocks[0]
	in[entry] = map[S]bool{sp.Init: true}
	work := []item{{entry, sp.Init}}
	for len(work) > 0 {
		it := work[len(work)-1]
		work = work[:len(work)-1]
		states := []S{it.s}
		for _, ins := range it.b.Instrs {
			var next []S
			seen := map[S]bool{}
			for _, s := range states {
				var outs []S
				if sp.Instr != nil {
					outs = sp.Instr(s, ins)
				} else {
					outs = []S{s}
				}
				for _, o := range outs {
					if !seen[o] {
						seen[o] = true
						next = append(next, o)
					}
				}
			}
			states = next
			if len(states) == 0 {
				break
			}
		}
		for i, succ := range it.b.Succs {
			for _, s := range states {
				s2, ok := s, true
				if sp.Edge != nil {
					s2, ok = sp.Edge(s, it.b, i)
				}
				if !ok {
					continue
				}
				m := in[succ]
				if m == nil {
					m = map[S]bool{}
					in[succ] = m
				}
				if !m[s2] {
					m[s2] = true
					work = append(work, item{succ, s2})
				}
			}
		}
	}
	return in
}

// BlockPos returns the position of the first instruction of b that has one.
func BlockPos(b *ssa.BasicBlock) token.Pos {
	for _, in := range b.Instrs {
		if in.Pos().IsValid() {
			return in.Pos()
		}
	}
	for _, p := range b.Preds {
		for i := len(p.Instrs) - 1; i >= 0; i-- {
			if p.Instrs[i].Pos().IsValid() {
				return p.Instrs[i].Pos()
			}
		}
	}
	return token.NoPos
}

// FrameEdge is a branch edge inside a helper function that is known to have been taken when the helper's
// result has the value a guarding edge of the caller established.
type FrameEdge struct {
	Edge
	Call   *ssa.Call
	Callee *ssa.Function
}

// ArgOf maps a value of the helper's frame to the caller's frame when it is (derived by Origin from) one of
// the helper's parameters; other values are returned unchanged with ok=false.
func (fe FrameEdge) ArgOf(v ssa.Value) (ssa.Value, bool) {
	p, ok := Origin(v).(*ssa.Parameter)
	if !ok || p.Parent() != fe.Callee {
		return v, false
	}
	for i, q := range fe.Callee.Params {
		if q == p && i < len(fe.Call.Call.Args) {
			return fe.Call.Call.Args[i], true
		}
	}
	return v, false
}

// ImpliedHelperEdges: g guards a block of the caller and its condition is the boolean result of a static
// call of a helper (taken as true or false), or the nil test of a helper's error result on the nil side.
// It returns the branch edges inside the helper that every execution with that result has taken.
func ImpliedHelperEdges(g Edge) []FrameEdge {
	call, h, targets := helperTargets(g)
	if h == nil {
		return nil
	}
	var out []FrameEdge
	for _, b := range h.Blocks {
		if BlockIf(b) == nil || len(b.Succs) != 2 {
			continue
		}
		domAll := true
		for _, t := range targets {
			if !b.Dominates(t) {
				domAll = false
			}
		}
		if !domAll {
			continue
		}
		for i := 0; i < 2; i++ {
			other := b.Succs[1-i]
			reach := false
			for _, t := range targets {
				if other == t || BlockReaches(other, t) {
					reach = true
				}
			}
			if !reach {
				out = append(out, FrameEdge{Edge: Edge{From: b, Succ: i}, Call: call, Callee: h})
			}
		}
	}
	return out
}

// RefusedHelperEdges: like ImpliedHelperEdges, but returns the branch edges inside the helper from which no return
// with the established result is reachable (an execution that took one of them did not produce that result).
func RefusedHelperEdges(g Edge) []FrameEdge {
	call, h, targets := helperTargets(g)
	if h == nil {
		return nil
	}
	var out []FrameEdge
	for _, b := range h.Blocks {
		if BlockIf(b) == nil || len(b.Succs) != 2 {
			continue
		}
		for i := 0; i < 2; i++ {
			reach := false
			for _, t := range targets {
				if b.Succs[i] == t || BlockReaches(b.Succs[i], t) {
					reach = true
				}
			}
			if !reach {
				out = append(out, FrameEdge{Edge: Edge{From: b, Succ: i}, Call: call, Callee: h})
			}
		}
	}
	return out
}

// helperTargets decodes a guarding edge of the caller as ‘the helper call returned this result’ and returns the
// helper's return blocks consistent with it.
func helperTargets(g Edge) (*ssa.Call, *ssa.Function, []*ssa.BasicBlock) {
	ifi := g.If()
	if ifi == nil {
		return nil, nil, nil
	}
	var call *ssa.Call
	wantBool, isBool := false, false
	resIdx := 0
	base, neg := CondBase(ifi.Cond)
	switch x := base.(type) {
	case *ssa.Call:
		call, isBool = x, true
		wantBool = (g.Succ == 0) != neg
	case *ssa.Extract:
		if c, ok := x.Tuple.(*ssa.Call); ok {
			if bt, ok := x.Type().Underlying().(*types.Basic); ok && bt.Kind() == types.Bool {
				call, isBool, resIdx = c, true, x.Index
				wantBool = (g.Succ == 0) != neg
			}
		}
	}
	if call == nil {
		if x, nilSucc, ok := NilTest(ifi); ok && g.Succ == nilSucc && IsErrorType(x.Type()) {
			switch y := Strip(x).(type) {
			case *ssa.Call:
				call = y
			case *ssa.Extract:
				if c, ok := y.Tuple.(*ssa.Call); ok {
					call, resIdx = c, y.Index
				}
			}
		}
	}
	if call == nil {
		return nil, nil, nil
	}
	h := call.Call.StaticCallee()
	if h == nil || len(h.Blocks) == 0 {
		return nil, nil, nil
	}
	nres := h.Signature.Results().Len()
	if resIdx >= nres {
		return nil, nil, nil
	}
	// target returns: those consistent with the established result
	var targets []*ssa.BasicBlock
	for _, b := range h.Blocks {
		if len(b.Instrs) == 0 {
			continue
		}
		ret, ok := b.Instrs[len(b.Instrs)-1].(*ssa.Return)
		if !ok || len(ret.Results) != nres {
			continue
		}
		rv := ret.Results[resIdx]
		if isBool {
			if bv, isC := ConstBool(rv); isC && bv != wantBool {
				continue
			}
		} else if DefiniteError(rv) || ReturnNonNilGuarded(ret, rv) {
			continue
		}
		targets = append(targets, b)
	}
	if len(targets) == 0 {
		return nil, nil, nil
	}
	return call, h, targets
}
