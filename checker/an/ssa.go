// Package an holds SSA helpers shared by the rules: value origins, callee classification,
// branch-condition decoding, dominance of CFG edges, reachability and a small path engine.
package an

import (
	"go/constant"
	"go/token"
	"go/types"

	"golang.org/x/tools/go/ssa"
)

// Strip looks through value-preserving conversions.
func Strip(v ssa.Value) ssa.Value {
	for {
		switch x := v.(type) {
		case *ssa.ChangeInterface:
			v = x.X
		case *ssa.MakeInterface:
			v = x.X
		case *ssa.ChangeType:
			v = x.X
		case *ssa.Convert:
			v = x.X
		default:
			return v
		}
	}
}

// closureSites returns the MakeClosure instructions that create fn.
func closureSites(fn *ssa.Function) []*ssa.MakeClosure {
	par := fn.Parent()
	if par == nil {
		return nil
	}
	var out []*ssa.MakeClosure
	for _, b := range par.Blocks {
		for _, in := range b.Instrs {
			if mc, ok := in.(*ssa.MakeClosure); ok && mc.Fn == fn {
				out = append(out, mc)
			}
		}
	}
	return out
}

// FreeVarBinding returns the value bound to a free variable at the (single) closure creation site.
func FreeVarBinding(fv *ssa.FreeVar) ssa.Value {
	fn := fv.Parent()
	idx := -1
	for i, f := range fn.FreeVars {
		if f == fv {
			idx = i
		}
	}
	sites := closureSites(fn)
	if idx < 0 || len(sites) != 1 {
		return nil
	}
	return sites[0].Bindings[idx]
}

// cellStores collects every store into the cell addressed by addr (an Alloc, possibly captured by
// closures, or a FreeVar), and whether the address escapes in a way that hides further stores.
func cellStores(addr ssa.Value, depth int) (stores []*ssa.Store, unknown bool) {
	if depth > 6 {
		return nil, true
	}
	switch a := addr.(type) {
	case *ssa.FreeVar:
		b := FreeVarBinding(a)
		if b == nil {
			return nil, true
		}
		return cellStores(b, depth+1)
	case *ssa.Alloc:
		var walk func(v ssa.Value, d int)
		walk = func(v ssa.Value, d int) {
			refs := v.Referrers()
			if refs == nil {
				unknown = true
				return
			}
			for _, r := range *refs {
				switch x := r.(type) {
				case *ssa.Store:
					if x.Addr == v {
						stores = append(stores, x)
					} else {
						unknown = true // the address itself is stored somewhere
					}
				case *ssa.UnOp:
					// load
				case *ssa.MakeClosure:
					for i, b := range x.Bindings {
						if b == v {
							if fn, ok := x.Fn.(*ssa.Function); ok && i < len(fn.FreeVars) && d < 6 {
								walk(fn.FreeVars[i], d+1)
							} else {
								unknown = true
							}
						}
					}
				case *ssa.DebugRef:
				case *ssa.FieldAddr, *ssa.IndexAddr:
					// partial updates of a struct/array cell are not whole-cell stores;
					// callers interested in fields handle them separately
				default:
					unknown = true
				}
			}
		}
		walk(a, depth)
		return stores, unknown
	}
	return nil, true
}

// SingleStore returns the only value ever stored in the cell addr, or nil.
func SingleStore(addr ssa.Value) ssa.Value {
	st, unk := cellStores(addr, 0)
	if unk || len(st) != 1 {
		return nil
	}
	return st[0].Val
}

// ReachingStore returns the value the load of a local cell sees when exactly one store of the cell reaches it
// along a straight line: the cell is a local of the loading function (a named result or a variable captured by
// closures that only read it), every store to it is in that function, and walking back from the load through
// single-predecessor blocks the first store met is the one returned.  nil when the walk meets a join first.
func ReachingStore(load *ssa.UnOp) ssa.Value {
	if load.Op != token.MUL {
		return nil
	}
	al, ok := load.X.(*ssa.Alloc)
	if !ok || al.Parent() != load.Parent() {
		return nil
	}
	stores, unknown := cellStores(al, 0)
	if unknown || len(stores) == 0 {
		return nil
	}
	for _, st := range stores {
		if st.Parent() != load.Parent() {
			return nil
		}
	}
	// a call of a closure (or a deferred/go closure run) between store and load cannot write: all stores are in
	// this function
	b := load.Block()
	idx := InstrIndex(load)
	for steps := 0; steps < 16; steps++ {
		for i := idx - 1; i >= 0; i-- {
			if st, ok := b.Instrs[i].(*ssa.Store); ok && st.Addr == ssa.Value(al) {
				return st.Val
			}
		}
		if len(b.Preds) != 1 {
			return nil
		}
		b = b.Preds[0]
		idx = len(b.Instrs)
	}
	return nil
}

// SingleFieldStore: addr is &local.f of a local struct variable that does not escape (it is only filled field by
// field, read, and copied by value); it returns the only value ever stored into that field, or nil.
func SingleFieldStore(addr ssa.Value) ssa.Value {
	fa, ok := addr.(*ssa.FieldAddr)
	if !ok {
		return nil
	}
	al, ok := fa.X.(*ssa.Alloc)
	if !ok || al.Referrers() == nil {
		return nil
	}
	var val ssa.Value
	n := 0
	for _, ref := range *al.Referrers() {
		switch x := ref.(type) {
		case *ssa.FieldAddr:
			if x.Referrers() == nil {
				return nil
			}
			for _, rr := range *x.Referrers() {
				switch y := rr.(type) {
				case *ssa.Store:
					if y.Addr != ssa.Value(x) {
						return nil // the field's address is stored somewhere
					}
					if x.Field == fa.Field {
						val = y.Val
						n++
					}
				case *ssa.UnOp, *ssa.DebugRef:
				case *ssa.FieldAddr, *ssa.IndexAddr:
					if x.Field == fa.Field {
						return nil // partial update of the field itself
					}
				default:
					if x.Field == fa.Field {
						return nil
					}
				}
			}
		case *ssa.UnOp, *ssa.DebugRef:
			// whole-value load (copy, return)
		case *ssa.Store:
			if x.Addr == ssa.Value(al) {
				return nil // assigned as a whole
			}
			return nil
		default:
			return nil // escapes
		}
	}
	if n == 1 {
		return val
	}
	return nil
}

// FreshFieldVal: load reads field f of a struct this function allocated itself and that nothing but field stores, field
// loads and a return touch; exactly one store writes f and it dominates the load: the stored value.  nil otherwise.
func FreshFieldVal(load *ssa.UnOp) ssa.Value {
	if load.Op != token.MUL {
		return nil
	}
	fa, ok := load.X.(*ssa.FieldAddr)
	if !ok {
		return nil
	}
	al, ok := fa.X.(*ssa.Alloc)
	if !ok || al.Parent() != load.Parent() || al.Referrers() == nil {
		return nil
	}
	var st *ssa.Store
	for _, ref := range *al.Referrers() {
		switch x := ref.(type) {
		case *ssa.FieldAddr:
			if x.Referrers() == nil {
				return nil
			}
			for _, rr := range *x.Referrers() {
				switch y := rr.(type) {
				case *ssa.Store:
					if y.Addr != ssa.Value(x) {
						return nil
					}
					if x.Field == fa.Field {
						if st != nil {
							return nil
						}
						st = y
					}
				case *ssa.UnOp, *ssa.DebugRef:
				default:
					if x.Field == fa.Field {
						return nil
					}
				}
			}
		case *ssa.Return, *ssa.DebugRef:
		case *ssa.UnOp:
		default:
			return nil
		}
	}
	if st == nil {
		return nil
	}
	if st.Block() == load.Block() {
		if InstrIndex(st) < InstrIndex(load) {
			return st.Val
		}
		return nil
	}
	if st.Block().Dominates(load.Block()) {
		return st.Val
	}
	return nil
}

// CellStores exposes all stores to a cell (nil, true when they cannot be enumerated).
func CellStores(addr ssa.Value) ([]*ssa.Store, bool) { return cellStores(addr, 0) }

// Origin follows conversions, tuple extraction of single-origin phis and loads of single-store
// cells (the form go/ssa gives to locals captured by closures).
func Origin(v ssa.Value) ssa.Value {
	return origin(v, map[ssa.Value]bool{})
}

func origin(v ssa.Value, seen map[ssa.Value]bool) ssa.Value {
	for i := 0; i < 64; i++ {
		v = Strip(v)
		switch x := v.(type) {
		case *ssa.UnOp:
			if x.Op == token.MUL {
				if st := SingleStore(x.X); st != nil {
					v = st
					continue
				}
				if st := ReachingStore(x); st != nil && !seen[st] {
					seen[st] = true
					v = st
					continue
				}
				if st := SingleFieldStore(x.X); st != nil && !seen[st] {
					seen[st] = true
					v = st
					continue
				}
			}
			return v
		case *ssa.Phi:
			if seen[x] {
				return v
			}
			seen[x] = true
			var o ssa.Value
			same := true
			for _, e := range x.Edges {
				eo := origin(e, seen)
				if eo == x {
					continue
				}
				if o == nil {
					o = eo
				} else if o != eo {
					same = false
				}
			}
			if same && o != nil {
				v = o
				continue
			}
			return v
		default:
			return v
		}
	}
	return v
}

// Origins returns the set of origins of v, splitting phis (and multi-store cells) into their operands.
func Origins(v ssa.Value) []ssa.Value {
	seen := map[ssa.Value]bool{}
	var out []ssa.Value
	var walk func(v ssa.Value, d int)
	walk = func(v ssa.Value, d int) {
		v = Origin(v)
		if seen[v] || d > 32 {
			return
		}
		seen[v] = true
		switch x := v.(type) {
		case *ssa.Phi:
			for _, e := range x.Edges {
				walk(e, d+1)
			}
			return
		case *ssa.UnOp:
			if x.Op == token.MUL {
				if st, unk := CellStores(x.X); !unk && len(st) > 0 {
					for _, s := range st {
						walk(s.Val, d+1)
					}
					return
				}
			}
		}
		out = append(out, v)
	}
	walk(v, 0)
	return out
}

// CallOf returns the call instruction a value is (an element of) the result of.
func CallOf(v ssa.Value) (*ssa.Call, int) {
	v = Strip(v)
	// the load of a local cell (named result, captured variable) stands for the value the reaching store put there
	if u, ok := v.(*ssa.UnOp); ok && u.Op == token.MUL {
		if _, isAlloc := u.X.(*ssa.Alloc); isAlloc {
			if o := Origin(u); o != ssa.Value(u) {
				v = Strip(o)
			}
		}
	}
	switch x := v.(type) {
	case *ssa.Call:
		return x, -1
	case *ssa.Extract:
		if c, ok := x.Tuple.(*ssa.Call); ok {
			return c, x.Index
		}
	}
	return nil, -1
}

// FuncObj is the function object a call statically refers to: the static callee, or the interface
// method in invoke mode.  nil for calls of function values.
func FuncObj(call ssa.CallInstruction) *types.Func {
	cc := call.Common()
	if cc.IsInvoke() {
		return cc.Method
	}
	if fn := cc.StaticCallee(); fn != nil {
		if o, ok := fn.Object().(*types.Func); ok {
			return o
		}
		if fn.Origin() != nil {
			if o, ok := fn.Origin().Object().(*types.Func); ok {
				return o
			}
		}
	}
	return nil
}

// RecvNamed returns the named receiver type of a method object (through a pointer), or nil.
func RecvNamed(f *types.Func) *types.Named {
	sig, ok := f.Type().(*types.Signature)
	if !ok || sig.Recv() == nil {
		return nil
	}
	t := sig.Recv().Type()
	if p, ok := t.(*types.Pointer); ok {
		t = p.Elem()
	}
	n, _ := t.(*types.Named)
	return n
}

// IsFunc reports whether call refers to pkgPath.name (a package-level function).
func IsFunc(call ssa.CallInstruction, pkgPath, name string) bool {
	f := FuncObj(call)
	if f == nil || f.Pkg() == nil || f.Name() != name || f.Pkg().Path() != pkgPath {
		return false
	}
	return RecvNamed(f) == nil && f.Type().(*types.Signature).Recv() == nil
}

// IsMethod reports whether call refers to method name of type pkgPath.typ (value or pointer receiver,
// or interface method).
func IsMethod(call ssa.CallInstruction, pkgPath, typ, name string) bool {
	f := FuncObj(call)
	if f == nil || f.Name() != name {
		return false
	}
	n := RecvNamed(f)
	if n == nil || n.Obj().Pkg() == nil {
		return false
	}
	return n.Obj().Pkg().Path() == pkgPath && n.Obj().Name() == typ
}

// CallArgs returns receiver (nil for plain functions) and the remaining arguments.
func CallArgs(call ssa.CallInstruction) (recv ssa.Value, args []ssa.Value) {
	cc := call.Common()
	if cc.IsInvoke() {
		return cc.Value, cc.Args
	}
	if fn := cc.StaticCallee(); fn != nil && fn.Signature.Recv() != nil && len(cc.Args) > 0 {
		return cc.Args[0], cc.Args[1:]
	}
	return nil, cc.Args
}

// ConstInt returns the integer value of a constant.
func ConstInt(v ssa.Value) (int64, bool) {
	c, ok := Strip(v).(*ssa.Const)
	if !ok || c.Value == nil || c.Value.Kind() != constant.Int {
		return 0, false
	}
	return c.Int64(), true
}

// ConstString returns the string value of a constant.
func ConstString(v ssa.Value) (string, bool) {
	c, ok := v.(*ssa.Const)
	if !ok {
		if cv, ok2 := v.(*ssa.Convert); ok2 {
			return ConstString(cv.X)
		}
		if ct, ok2 := v.(*ssa.ChangeType); ok2 {
			return ConstString(ct.X)
		}
		return "", false
	}
	if c.Value == nil || c.Value.Kind() != constant.String {
		return "", false
	}
	return constant.StringVal(c.Value), true
}

// IsNilConst reports whether v is the nil constant.
func IsNilConst(v ssa.Value) bool {
	c, ok := v.(*ssa.Const)
	return ok && c.Value == nil
}

// IsErrorType reports whether t is the predeclared error interface.
func IsErrorType(t types.Type) bool {
	n, ok := t.(*types.Named)
	return ok && n.Obj().Pkg() == nil && n.Obj().Name() == "error"
}

// Deref removes one pointer level.
func Deref(t types.Type) types.Type {
	if p, ok := t.Underlying().(*types.Pointer); ok {
		return p.Elem()
	}
	return t
}

// NamedOf returns the named type of t through pointers.
func NamedOf(t types.Type) *types.Named {
	for i := 0; i < 4; i++ {
		switch x := t.(type) {
		case *types.Named:
			return x
		case *types.Pointer:
			t = x.Elem()
		case *types.Alias:
			t = types.Unalias(x)
		default:
			return nil
		}
	}
	return nil
}

// InstrIndex returns the index of in within its block.
func InstrIndex(in ssa.Instruction) int {
	for i, x := range in.Block().Instrs {
		if x == in {
			return i
		}
	}
	return -1
}

// Calls iterates over the call instructions (call, go, defer) of a function.
func Calls(fn *ssa.Function, f func(ssa.CallInstruction)) {
	for _, b := range fn.Blocks {
		for _, in := range b.Instrs {
			if c, ok := in.(ssa.CallInstruction); ok {
				f(c)
			}
		}
	}
}

// Instrs iterates over all instructions of a function.
func Instrs(fn *ssa.Function, f func(ssa.Instruction)) {
	for _, b := range fn.Blocks {
		for _, in := range b.Instrs {
			f(in)
		}
	}
}

// WithAnon returns fn and all functions nested in it.
func WithAnon(fn *ssa.Function) []*ssa.Function {
	out := []*ssa.Function{fn}
	for _, a := range fn.AnonFuncs {
		out = append(out, WithAnon(a)...)
	}
	return out
}

// ConstBool returns the value of a boolean constant.
func ConstBool(v ssa.Value) (bool, bool) {
	c, ok := Strip(v).(*ssa.Const)
	if !ok || c.Value == nil || c.Value.Kind() != constant.Bool {
		return false, false
	}
	return constant.BoolVal(c.Value), true
}

// TypeString renders a type with full package paths.
func TypeString(t types.Type) string {
	return types.TypeString(t, func(p *types.Package) string { return p.Path() })
}

// HelperRet is one non-error return of a helper function, seen from a call of it.
type HelperRet struct {
	Call   *ssa.Call
	Callee *ssa.Function
	Ret    *ssa.Return
	Val    ssa.Value // the returned value for the result index asked for
}

// HelperReturns: v is the result (or one extracted result) of a static call of a function with a body;
// it returns, for every return of that function that does not definitely return an error, the value
// returned at v's result index. accept decides which callees are looked into.
func HelperReturns(v ssa.Value, accept func(*ssa.Function) bool) []HelperRet {
	v = Strip(v)
	idx := 0
	var call *ssa.Call
	switch x := v.(type) {
	case *ssa.Extract:
		c, ok := x.Tuple.(*ssa.Call)
		if !ok {
			return nil
		}
		call, idx = c, x.Index
	case *ssa.Call:
		call = x
	default:
		return nil
	}
	h := call.Call.StaticCallee()
	if h == nil || len(h.Blocks) == 0 || (accept != nil && !accept(h)) {
		return nil
	}
	res := h.Signature.Results()
	if idx >= res.Len() {
		return nil
	}
	errIdx := -1
	if res.Len() > 0 && IsErrorType(res.At(res.Len()-1).Type()) {
		errIdx = res.Len() - 1
	}
	var out []HelperRet
	for _, b := range h.Blocks {
		if len(b.Instrs) == 0 {
			continue
		}
		ret, ok := b.Instrs[len(b.Instrs)-1].(*ssa.Return)
		if !ok || len(ret.Results) != res.Len() {
			continue
		}
		if errIdx >= 0 && errIdx != idx && (DefiniteError(ret.Results[errIdx]) || ReturnNonNilGuarded(ret, ret.Results[errIdx])) {
			continue
		}
		out = append(out, HelperRet{Call: call, Callee: h, Ret: ret, Val: ret.Results[idx]})
	}
	return out
}

// DefiniteError: the value is certainly a non-nil error (a fresh error, a package-level error variable, a
// joined/wrapped one of those, or an error tested non-nil on every edge guarding its use is not covered).
func DefiniteError(v ssa.Value) bool {
	return definiteError(v, 0)
}

func definiteError(v ssa.Value, d int) bool {
	if v == nil || d > 5 {
		return false
	}
	switch x := Strip(v).(type) {
	case *ssa.Call:
		if IsFunc(x, "fmt", "Errorf") || IsFunc(x, "errors", "New") {
			return true
		}
		// an error constructor of the program: a function with a single error result every return of which is one
		if h := x.Call.StaticCallee(); h != nil && len(h.Blocks) > 0 && h.Signature.Results().Len() == 1 && IsErrorType(h.Signature.Results().At(0).Type()) {
			n, all := 0, true
			Instrs(h, func(in ssa.Instruction) {
				if ret, ok := in.(*ssa.Return); ok && len(ret.Results) == 1 {
					n++
					if !definiteError(ret.Results[0], d+1) {
						all = false
					}
				}
			})
			return all && n > 0
		}
	case *ssa.UnOp:
		if g, ok := x.X.(*ssa.Global); ok && IsErrorType(Deref(g.Type())) {
			return true
		}
	case *ssa.MakeInterface:
		return definiteError(x.X, d+1)
	case *ssa.Phi:
		for _, e := range x.Edges {
			if !definiteError(e, d+1) {
				return false
			}
		}
		return len(x.Edges) > 0
	}
	return false
}

// ReturnNonNilGuarded: the error value returned is known non-nil at the return because the return's block is
// guarded by the non-nil edge of a nil test of that very value.
func ReturnNonNilGuarded(ret *ssa.Return, errv ssa.Value) bool {
	for _, g := range GuardingEdges(ret.Block()) {
		if x, nilSucc, ok := NilTest(g.If()); ok && g.Succ != nilSucc && (x == errv || Origin(x) == Origin(errv)) {
			return true
		}
	}
	return false
}

// PtrTarget is one allocation a pointer value may point to.  Via is set when the allocation is made in a helper whose
// result flows into the pointer: the call in the outer frame; Ret is then the return of the helper handing it out.
type PtrTarget struct {
	Alloc *ssa.Alloc
	Via   *ssa.Call
	Ret   *ssa.Return
}

// Block is the block, in the frame of the allocation, at which the object is complete: the return handing it out of
// a helper, else the allocation's own block.
func (t PtrTarget) Block() *ssa.BasicBlock {
	if t.Ret != nil {
		return t.Ret.Block()
	}
	return t.Alloc.Block()
}

// ArgOf maps a value of the helper's frame that is (derived by Origin from) a parameter to the argument at the call.
func (t PtrTarget) ArgOf(v ssa.Value) (ssa.Value, bool) {
	if t.Via == nil {
		return v, false
	}
	p, ok := Origin(v).(*ssa.Parameter)
	callee := t.Via.Call.StaticCallee()
	if !ok || callee == nil || p.Parent() != callee {
		return v, false
	}
	for i, q := range callee.Params {
		if q == p && i < len(t.Via.Call.Args) {
			return t.Via.Call.Args[i], true
		}
	}
	return v, false
}

// PtrTargets returns the allocations the pointer v may point to: local allocations reached through φs and local
// pointer variables, and allocations returned by helpers accept admits (one level).  nil constants are skipped;
// complete is false when some source is neither.
func PtrTargets(v ssa.Value, accept func(*ssa.Function) bool) (out []PtrTarget, complete bool) {
	complete = true
	type visit struct {
		v   ssa.Value
		via *ssa.Call
	}
	seen := map[visit]bool{}
	var walk func(v ssa.Value, via *ssa.Call, ret *ssa.Return, d int)
	walk = func(v ssa.Value, via *ssa.Call, ret *ssa.Return, d int) {
		v = Strip(v)
		if v == nil || seen[visit{v, via}] {
			return
		}
		seen[visit{v, via}] = true
		if d > 10 {
			complete = false
			return
		}
		if IsNilConst(v) {
			return
		}
		switch x := v.(type) {
		case *ssa.Alloc:
			out = append(out, PtrTarget{Alloc: x, Via: via, Ret: ret})
		case *ssa.Phi:
			for _, e := range x.Edges {
				walk(e, via, ret, d+1)
			}
		case *ssa.UnOp:
			// a local pointer variable: everything stored into it
			if x.Op == token.MUL {
				if sts, unk := CellStores(x.X); !unk && len(sts) > 0 {
					for _, st := range sts {
						walk(st.Val, via, ret, d+1)
					}
					return
				}
			}
			complete = false
		case *ssa.Call, *ssa.Extract:
			if via != nil {
				complete = false // one level only
				return
			}
			hr := HelperReturns(v, accept)
			if len(hr) == 0 {
				complete = false
				return
			}
			for _, r := range hr {
				walk(r.Val, r.Call, r.Ret, d+1)
			}
		default:
			complete = false
		}
	}
	walk(v, nil, nil, 0)
	return out, complete
}

// FieldStoresOf returns the values stored into field `field` of the allocation (through any &alloc.field), and
// for a struct-typed field the addresses &alloc.field themselves (whose own fields may be filled one by one).
func FieldStoresOf(al *ssa.Alloc, field int) (vals []ssa.Value, addrs []*ssa.FieldAddr) {
	if al.Referrers() == nil {
		return nil, nil
	}
	for _, ref := range *al.Referrers() {
		fa, ok := ref.(*ssa.FieldAddr)
		if !ok || fa.Field != field {
			continue
		}
		addrs = append(addrs, fa)
		if fa.Referrers() == nil {
			continue
		}
		for _, rr := range *fa.Referrers() {
			if st, ok := rr.(*ssa.Store); ok && st.Addr == ssa.Value(fa) {
				vals = append(vals, st.Val)
			}
		}
	}
	return vals, addrs
}
