package an

import (
	"go/token"

	"golang.org/x/tools/go/ssa"
)

// ErrVal is the abstract value of a tracked error along a path.
type ErrVal uint8

const (
	EU  ErrVal = iota // unknown
	EN                // nil
	EX                // non-nil, kind unknown
	EE                // non-nil and errors.Is(err, sentinel)
	EO                // non-nil and not the sentinel
	ENO               // nil, or non-nil and not the sentinel
)

// RefineNil applies `x == nil` (isNil) or `x != nil` to an abstract value; ok=false when infeasible.
func RefineNil(v ErrVal, isNil bool) (ErrVal, bool) {
	if isNil {
		switch v {
		case EU, EN, ENO:
			return EN, true
		}
		return v, false
	}
	switch v {
	case EU:
		return EX, true
	case EN:
		return v, false
	case ENO:
		return EO, true
	}
	return v, true
}

// RefineIs applies errors.Is(x, sentinel) == is.
func RefineIs(v ErrVal, is bool) (ErrVal, bool) {
	if is {
		switch v {
		case EU, EX, EE:
			return EE, true
		}
		return v, false
	}
	switch v {
	case EU:
		return ENO, true
	case EX:
		return EO, true
	case EE:
		return v, false
	}
	return v, true
}

// ErrAliases returns v and the results of errors.Join calls (transitively) that have v as an argument:
// Join(...) is nil iff all arguments are nil, so a nil test of the join decides v on the nil side.
func ErrAliases(v ssa.Value) map[ssa.Value]bool {
	out := map[ssa.Value]bool{v: true}
	var walk func(x ssa.Value, d int)
	walk = func(x ssa.Value, d int) {
		if d > 4 || x.Referrers() == nil {
			return
		}
		for _, r := range *x.Referrers() {
			switch y := r.(type) {
			case *ssa.Store:
				// varargs: stored into the argument array of a Join call
				if ia, ok := y.Addr.(*ssa.IndexAddr); ok && y.Val == x {
					if al, ok := ia.X.(*ssa.Alloc); ok && al.Referrers() != nil {
						for _, rr := range *al.Referrers() {
							if sl, ok := rr.(*ssa.Slice); ok && sl.Referrers() != nil {
								for _, r3 := range *sl.Referrers() {
									if c, ok := r3.(*ssa.Call); ok && IsFunc(c, "errors", "Join") {
										if !out[c] {
											out[c] = true
											walk(c, d+1)
										}
									}
								}
							}
						}
					}
				}
			case *ssa.MakeInterface:
				walk(y, d+1)
			case *ssa.ChangeInterface:
				walk(y, d+1)
			}
		}
	}
	walk(v, 0)
	return out
}

// ErrResult returns the error-typed result value of a call (the call itself or an Extract), or nil.
func ErrResult(call ssa.CallInstruction) ssa.Value {
	c, ok := call.(*ssa.Call)
	if !ok {
		return nil
	}
	if IsErrorType(c.Type()) {
		return c
	}
	if c.Referrers() == nil {
		return nil
	}
	for _, r := range *c.Referrers() {
		if ex, ok := r.(*ssa.Extract); ok && IsErrorType(ex.Type()) {
			return ex
		}
	}
	return nil
}

// IsGlobalLoad reports whether v is a load of the package-level variable pkg.name.
func IsGlobalLoad(v ssa.Value, pkgPath, name string) bool {
	u, ok := Strip(v).(*ssa.UnOp)
	if !ok || u.Op != token.MUL {
		return false
	}
	g, ok := u.X.(*ssa.Global)
	return ok && g.Name() == name && g.Pkg != nil && g.Pkg.Pkg.Path() == pkgPath
}

// TrackSlots registers v in slot i, and its errors.Join aliases as nil-side-only aliases.
func TrackSlots(tracked map[ssa.Value]int, v ssa.Value, i int) {
	for a := range ErrAliases(v) {
		if a == v {
			tracked[a] = i
		} else if _, ok := tracked[a]; !ok {
			tracked[a] = -i - 1
		}
	}
}

// TrackErrEdge refines the abstract values of tracked errors over one CFG edge.  tracked maps an SSA
// value (or alias) to its slot; sentinel is the (package, name) of the sentinel error variable.
func TrackErrEdge(vals []ErrVal, tracked map[ssa.Value]int, sentPkg, sentName string, from *ssa.BasicBlock, succ int) ([]ErrVal, bool) {
	ifi := BlockIf(from)
	if ifi == nil {
		return vals, true
	}
	out := vals
	set := func(i int, v ErrVal) {
		if &out[0] == &vals[0] {
			out = append([]ErrVal(nil), vals...)
		}
		out[i] = v
	}
	if x, nilSucc, ok := NilTest(ifi); ok {
		if i, tr := tracked[x]; tr {
			if i < 0 {
				// alias through errors.Join: only the nil side decides the tracked value
				if succ == nilSucc {
					nv, feas := RefineNil(vals[-i-1], true)
					if !feas {
						return vals, false
					}
					set(-i-1, nv)
				}
			} else {
				nv, feas := RefineNil(vals[i], succ == nilSucc)
				if !feas {
					return vals, false
				}
				set(i, nv)
			}
		}
	}
	if x, tgt, trueSucc, ok := ErrIsTest(ifi); ok {
		if i, tr := tracked[x]; tr && i >= 0 && IsGlobalLoad(tgt, sentPkg, sentName) {
			nv, feas := RefineIs(vals[i], succ == trueSucc)
			if !feas {
				return vals, false
			}
			set(i, nv)
		}
	}
	return out, true
}
