// olacheck decides the structural clauses of the olareg properties from the source of /repo.
package main

import (
	"encoding/json"
	"flag"
	"fmt"
	"os"
	"path/filepath"
	"sort"
	"strconv"
	"strings"
	"time"

	"olacheck/core"
	"olacheck/rules"
	"olacheck/selftest"
)

func main() {
	prop := flag.String("prop", "", "property id (C01..C20), or 'all'")
	tier := flag.String("tier", "", "quick | thorough (default: $VERIF_TIER or quick)")
	repo := flag.String("repo", "/repo", "repository to analyse")
	verif := flag.String("verif", "/verif", "verification directory (known findings, evidence, replays)")
	replay := flag.String("replay", "", "replay file: re-run the rule of that violation")
	list := flag.Bool("list", false, "list rules and properties")
	noEvidence := flag.Bool("no-evidence", false, "do not write evidence files (used when analysing scratch copies)")
	verbose := flag.Bool("v", false, "print every obligation")
	manifest := flag.Bool("manifest", false, "print MANIFEST.json")
	dump := flag.String("dump", "", "debug: dump an engine's tables (locks)")
	mutant := flag.String("mutant", "", "self-test child mode: analyse one seeded edit and print the result as JSON")
	selfOnly := flag.Bool("selftest", false, "run the sensitivity self-test for the given properties and print a summary")
	flag.Parse()
	if *manifest {
		b, err := rules.ManifestJSON()
		if err != nil {
			fmt.Println(err)
			os.Exit(2)
		}
		fmt.Println(string(b))
		return
	}
	if *mutant != "" {
		m := selftest.Find(*mutant)
		if m == nil {
			fmt.Println("{}")
			os.Exit(2)
		}
		absRepo, _ := filepath.Abs(*repo)
		b, _ := json.Marshal(selftest.RunOne(absRepo, *verif, m))
		fmt.Println(string(b))
		return
	}
	if *dump != "" {
		p, err := core.Load(core.LoadConfig{Dir: *repo})
		if err != nil {
			fmt.Println(err)
			os.Exit(2)
		}
		rules.Dump(core.NewCtx(p), *dump)
		return
	}
	if *list {
		for _, id := range rules.PropertyIDs() {
			p := rules.GetProperty(id)
			fmt.Printf("%s: %s\n", id, strings.Join(p.Rules, " "))
		}
		return
	}
	if *tier == "" {
		*tier = os.Getenv("VERIF_TIER")
	}
	if *tier != "thorough" {
		*tier = "quick"
	}
	seed, _ := strconv.Atoi(os.Getenv("VERIF_SEED"))
	if *prop == "" {
		fmt.Fprintln(os.Stderr, "usage: olacheck -prop Cxx [-tier quick|thorough]")
		os.Exit(2)
	}
	absRepo, _ := filepath.Abs(*repo)
	ff, err := core.LoadFindings(filepath.Join(*verif, "known_findings.json"))
	if err != nil {
		fmt.Printf("cannot read known findings: %v\n", err)
		os.Exit(2)
	}
	var props []string
	if *prop == "all" {
		props = rules.PropertyIDs()
	} else {
		props = strings.Split(*prop, ",")
	}
	for _, id := range props {
		if rules.GetProperty(id) == nil {
			fmt.Printf("property %s is not claimed by this checker\n", id)
			os.Exit(2)
		}
	}
	t0 := time.Now()
	opts := rules.RunOpts{Repo: absRepo, Verif: *verif, Tier: *tier, Seed: seed, Verbose: *verbose, WriteEvidence: !*noEvidence, Findings: ff, Start: t0}
	if *replay != "" {
		b, err := os.ReadFile(*replay)
		if err != nil {
			fmt.Println(err)
			os.Exit(2)
		}
		var r core.Replay
		if err := json.Unmarshal(b, &r); err != nil {
			fmt.Println(err)
			os.Exit(2)
		}
		opts.OnlyRule, opts.OnlyKey = r.Rule, r.Key
		opts.WriteEvidence = false
	}
	if *tier == "thorough" || *selfOnly {
		self, _ := os.Executable()
		results := selftest.RunAll(self, absRepo, *verif, props, 6)
		opts.Extra = map[string]map[string]any{}
		for _, id := range props {
			sum := selftest.Summarise(results, id)
			opts.Extra[id] = sum
			sv := sum["sensitivity"].(map[string]any)
			fmt.Printf("self-test %s: %v of %v seeded edits detected (%v by the expected rule), %v not applicable; %v of %v benign edits silent\n", id,
				sv["detected"], sv["mutants_applied"], sv["detected_by_expected"], sv["not_applicable"], sv["benign_edits_silent"], sv["benign_edits_applied"])
			if *selfOnly {
				for _, row := range sv["details"].([]map[string]any) {
					if v, _ := row["verdict"].(string); !strings.HasPrefix(v, "detected by the expected") {
						fmt.Printf("   %v: %v %v\n", row["mutant"], row["verdict"], row["reported"])
					}
				}
				for _, fa := range sv["benign_edits_reported"].([]string) {
					fmt.Printf("   benign edit reported: %s\n", fa)
				}
			}
		}
		if *selfOnly {
			return
		}
	}
	bad := rules.RunProperties(props, opts)
	sort.Strings(bad)
	fmt.Printf("olacheck: %d propert(ies) in %.1fs, tier=%s, repo=%s: %s\n", len(props), time.Since(t0).Seconds(), *tier, absRepo,
		map[bool]string{true: "all hold", false: "VIOLATED: " + strings.Join(bad, ",")}[len(bad) == 0])
	if len(bad) > 0 {
		os.Exit(1)
	}
}
