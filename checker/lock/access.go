package lock

import (
	"fmt"
	"go/token"
	"go/types"
	"strings"

	"golang.org/x/tools/go/ssa"

	"olacheck/an"
)

// ScopePkgs are the packages whose struct types are tracked by the lockset analysis.
func (e *Engine) sharedType(t types.Type) (*types.Named, bool) {
	n := an.NamedOf(t)
	if n == nil {
		return nil, false
	}
	o := n.Origin().Obj()
	if o.Pkg() == nil {
		return nil, false
	}
	p := o.Pkg().Path()
	if p != e.R.RootPath && p != e.R.StorePath && p != e.R.CachePath {
		return nil, false
	}
	if _, ok := n.Underlying().(*types.Struct); !ok {
		return nil, false
	}
	return n, true
}

func isSyncType(t types.Type) bool {
	if n, ok := t.(*types.Named); ok && n.Obj().Pkg() != nil && n.Obj().Pkg().Path() == "sync" {
		return true
	}
	return false
}

// rootField resolves an address (or a map/slice value) to the struct field it belongs to.
func (e *Engine) rootField(v ssa.Value, depth int) (field string, base ssa.Value, ok bool) {
	if depth > 8 {
		return "", nil, false
	}
	switch x := v.(type) {
	case *ssa.FieldAddr:
		// address arithmetic inside one object: prefer the outermost tracked field
		switch x.X.(type) {
		case *ssa.FieldAddr, *ssa.IndexAddr:
			if f, b, ok := e.rootField(x.X, depth+1); ok {
				return f, b, true
			}
		}
		st := an.Deref(x.X.Type())
		if n, shared := e.sharedType(st); shared {
			s := n.Underlying().(*types.Struct)
			fld := s.Field(x.Field)
			if isSyncType(fld.Type()) {
				return "", nil, false
			}
			return e.P.TypeName(n) + "." + fld.Name(), x.X, true
		}
	case *ssa.IndexAddr:
		switch x.X.(type) {
		case *ssa.FieldAddr, *ssa.IndexAddr:
			return e.rootField(x.X, depth+1)
		}
		// element of a slice value loaded from a field
		return e.rootField(x.X, depth+1)
	case *ssa.UnOp:
		if x.Op == token.MUL {
			// a map or slice value loaded from a field: its contents belong to the field
			switch x.Type().Underlying().(type) {
			case *types.Map, *types.Slice:
				if fa, ok := x.X.(*ssa.FieldAddr); ok {
					return e.rootField(fa, depth+1)
				}
			}
		}
	case *ssa.Slice:
		return e.rootField(x.X, depth+1)
	}
	return "", nil, false
}

func (fa *funcAn) access(st lstate, field string, base ssa.Value, write bool, at ssa.Instruction) {
	e := fa.e
	unpub := fa.unpublishedAt(base, at)
	fname := e.P.FuncName(fa.fn)
	k := fmt.Sprintf("%v|%x|%s|%d|%v", write, st.held, fname, at.Pos(), unpub)
	m := e.Accesses[field]
	if m == nil {
		m = map[string]Access{}
		e.Accesses[field] = m
	}
	if _, ok := m[k]; !ok {
		m[k] = Access{Field: field, Write: write, Held: st.held, Func: fname, Pos: at.Pos(), Unpub: unpub, Root: e.curRoot}
	}
}

// recordAccess classifies the memory accesses of one instruction.
func (fa *funcAn) recordAccess(st lstate, in ssa.Instruction) {
	e := fa.e
	switch x := in.(type) {
	case *ssa.UnOp:
		if x.Op == token.MUL {
			if f, b, ok := e.rootField(x.X, 0); ok {
				switch x.X.(type) {
				case *ssa.FieldAddr, *ssa.IndexAddr:
					fa.access(st, f, b, false, x)
				}
			}
		}
	case *ssa.Store:
		if f, b, ok := e.rootField(x.Addr, 0); ok {
			fa.access(st, f, b, true, x)
		}
		// storing the address of a field elsewhere lets others write it
		if f, b, ok := fa.addrOfField(x.Val); ok {
			fa.access(st, f, b, true, x)
		}
	case *ssa.MapUpdate:
		if f, b, ok := e.rootField(x.Map, 0); ok {
			fa.access(st, f, b, true, x)
		}
	case *ssa.Lookup:
		if f, b, ok := e.rootField(x.X, 0); ok {
			fa.access(st, f, b, false, x)
		}
	case *ssa.Next:
		if r, ok := x.Iter.(*ssa.Range); ok {
			if f, b, ok := e.rootField(r.X, 0); ok {
				fa.access(st, f, b, false, x)
			}
		}
	case *ssa.Range:
		if f, b, ok := e.rootField(x.X, 0); ok {
			fa.access(st, f, b, false, x)
		}
	case ssa.CallInstruction:
		cc := x.Common()
		if bi, ok := cc.Value.(*ssa.Builtin); ok {
			switch bi.Name() {
			case "delete":
				if f, b, ok := e.rootField(cc.Args[0], 0); ok {
					fa.access(st, f, b, true, x)
				}
			case "append":
				// reads its operands; the result is stored separately
			}
			return
		}
		// the address of a field handed to a callee (pointer receiver or pointer argument) may be written there
		if op, _, _, ok := fa.syncOp(x); ok && op != "" {
			return
		}
		for ai, a := range cc.Args {
			// the receiver of a method of a struct that carries its own mutex (a limiter, a gate embedded by value): the
			// method's accesses are those of the inner struct's fields, judged against the inner mutex — not a write of
			// the field that holds the struct
			if ai == 0 && !cc.IsInvoke() {
				if sc := cc.StaticCallee(); sc != nil && sc.Signature.Recv() != nil && selfGuardedStruct(an.Deref(a.Type())) {
					continue
				}
			}
			if f, b, ok := fa.addrOfField(a); ok {
				fa.access(st, f, b, true, x)
			}
		}
		// a method called on an object held in a field, when the object's type is one that is not safe for
		// concurrent use (buffers, hashes, writers): an access of the pointee, recorded as pseudo-field "f→"
		if recv := callReceiver(cc); recv != nil {
			if ld, ok := recv.(*ssa.UnOp); ok && ld.Op == token.MUL {
				if fad, ok := ld.X.(*ssa.FieldAddr); ok && unsafePointee(ld.Type()) {
					if f, b, ok := e.rootField(fad, 0); ok {
						name := ""
						if cc.IsInvoke() {
							name = cc.Method.Name()
						} else if sc := cc.StaticCallee(); sc != nil {
							name = sc.Name()
						}
						fa.access(st, f+"→", b, !pointeeReadMethods[name], x)
						for _, al := range e.ptAlias[f+"→"] {
							fa.access(st, al, b, !pointeeReadMethods[name], x)
						}
					}
				}
			}
		}
	case *ssa.MakeClosure:
		for _, bnd := range x.Bindings {
			if f, b, ok := fa.addrOfField(bnd); ok {
				fa.access(st, f, b, true, x)
			}
		}
	}
}

// addrOfField: v is the address of a tracked field (not of a synchronisation object).
func (fa *funcAn) addrOfField(v ssa.Value) (string, ssa.Value, bool) {
	switch v.(type) {
	case *ssa.FieldAddr, *ssa.IndexAddr:
		if _, isPtr := v.Type().Underlying().(*types.Pointer); isPtr {
			if isSyncType(an.Deref(v.Type())) {
				return "", nil, false
			}
			return fa.e.rootField(v, 0)
		}
	}
	return "", nil, false
}

// FieldReport is the lockset verdict for one field.
type FieldReport struct {
	Field      string
	Reads      int
	Writes     int
	PostWrites int
	Common     []string // locks held at every post-publication access
	Bad        []Access // accesses lacking the majority lock
	Guard      string   // the lock most accesses hold
}

// Lockset computes the per-field verdicts (mutex classes only).
func (e *Engine) Lockset() []FieldReport {
	mm := e.MutexMask()
	// shared (read) mode of a read-write mutex: counts as the mutex for reads, as nothing for writes
	sharedOf := map[int]int{}
	for i, cl := range e.Classes {
		if strings.HasSuffix(cl.Name, "#r") {
			if b, ok := e.classIdx[strings.TrimSuffix(cl.Name, "#r")]; ok {
				sharedOf[i] = b
			} else {
				sharedOf[i] = -1
			}
		}
	}
	eff := func(a Access) Access {
		for r, b := range sharedOf {
			if a.Held&(1<<uint(r)) != 0 {
				a.Held &^= 1 << uint(r)
				if !a.Write && b >= 0 {
					a.Held |= 1 << uint(b)
				}
			}
		}
		return a
	}
	var out []FieldReport
	for field, m0 := range e.Accesses {
		m := map[string]Access{}
		for k, a := range m0 {
			m[k] = eff(a)
		}
		fr := FieldReport{Field: field}
		common := ^uint64(0)
		var post []Access
		for _, a := range m {
			if a.Write {
				fr.Writes++
			} else {
				fr.Reads++
			}
			if a.Unpub {
				continue
			}
			post = append(post, a)
			if a.Write {
				fr.PostWrites++
			}
		}
		if fr.PostWrites == 0 {
			out = append(out, fr)
			continue
		}
		count := map[int]int{}
		for _, a := range post {
			common &= a.Held & mm
			for i := range e.Classes {
				if a.Held&mm&(1<<uint(i)) != 0 {
					count[i]++
				}
			}
		}
		fr.Common = e.HeldNames(common)
		if common == 0 {
			best, bestN := -1, 0
			for i, n := range count {
				if n > bestN || (n == bestN && best >= 0 && e.Classes[i].Name < e.Classes[best].Name) {
					best, bestN = i, n
				}
			}
			if best >= 0 {
				fr.Guard = e.Classes[best].Name
			}
			for _, a := range post {
				if best < 0 || a.Held&(1<<uint(best)) == 0 {
					fr.Bad = append(fr.Bad, a)
				}
			}
		}
		out = append(out, fr)
	}
	return out
}

// FuncsAnalysed returns the number of distinct functions interpreted.
func (e *Engine) FuncsAnalysed() int { return len(e.funcsSeen) }

var _ = strings.Join

// callReceiver returns the receiver value of a method call (nil for plain function calls).
func callReceiver(cc *ssa.CallCommon) ssa.Value {
	if cc.IsInvoke() {
		return cc.Value
	}
	if sc := cc.StaticCallee(); sc != nil && sc.Signature.Recv() != nil && len(cc.Args) > 0 {
		return cc.Args[0]
	}
	return nil
}

// unsafePointee: types whose values are mutated by their methods and are documented as not safe for
// concurrent use without external locking.
func unsafePointee(t types.Type) bool {
	switch an.TypeString(t) {
	case "*bytes.Buffer", "*strings.Builder", "*bufio.Writer", "*bufio.Reader", "hash.Hash", "io.Writer", "io.Reader",
		"github.com/opencontainers/go-digest.Digester", "*encoding/json.Encoder", "*encoding/json.Decoder":
		return true
	}
	return false
}

var pointeeReadMethods = map[string]bool{"Bytes": true, "Len": true, "String": true, "Cap": true, "Available": true,
	"Digest": true, "Sum": true, "Size": true, "BlockSize": true, "Buffered": true}

// pointeeAliases finds wrappers: a field assigned io.MultiWriter(x.a, x.b.M(), …) writes through to the
// objects held in the fields a and b of the same struct.
func (e *Engine) pointeeAliases() {
	e.ptAlias = map[string][]string{}
	var fieldOf func(v ssa.Value, d int) (string, bool)
	fieldOf = func(v ssa.Value, d int) (string, bool) {
		if d > 4 {
			return "", false
		}
		switch x := v.(type) {
		case *ssa.UnOp:
			if x.Op == token.MUL {
				if fad, ok := x.X.(*ssa.FieldAddr); ok {
					if f, _, ok := e.rootField(fad, 0); ok {
						return f + "→", true
					}
				}
			}
		case *ssa.MakeInterface:
			return fieldOf(x.X, d+1)
		case *ssa.ChangeInterface:
			return fieldOf(x.X, d+1)
		case *ssa.Call:
			// a method result of an object held in a field (d.Hash()): writes go to that object
			// (only the accessor that hands out the object's own state; constructors such as Digester() build new objects)
			if recv := callReceiver(&x.Call); recv != nil && calleeNameOf(&x.Call) == "Hash" {
				return fieldOf(recv, d+1)
			}
		}
		return "", false
	}
	for _, fn := range e.P.ModFuncs {
		for _, b := range fn.Blocks {
			for _, in := range b.Instrs {
				st, ok := in.(*ssa.Store)
				if !ok {
					continue
				}
				fad, ok := st.Addr.(*ssa.FieldAddr)
				if !ok {
					continue
				}
				f, _, ok := e.rootField(fad, 0)
				if !ok {
					continue
				}
				call, ok := st.Val.(*ssa.Call)
				if !ok || !an.IsFunc(call, "io", "MultiWriter") || len(call.Call.Args) != 1 {
					continue
				}
				sl, ok := call.Call.Args[0].(*ssa.Slice)
				if !ok {
					continue
				}
				al, ok := sl.X.(*ssa.Alloc)
				if !ok || al.Referrers() == nil {
					continue
				}
				for _, r := range *al.Referrers() {
					ia, ok := r.(*ssa.IndexAddr)
					if !ok || ia.Referrers() == nil {
						continue
					}
					for _, rr := range *ia.Referrers() {
						if s2, ok := rr.(*ssa.Store); ok && s2.Addr == ia {
							if tf, ok := fieldOf(s2.Val, 0); ok && tf != f+"→" {
								dup := false
								for _, x := range e.ptAlias[f+"→"] {
									if x == tf {
										dup = true
									}
								}
								if !dup {
									e.ptAlias[f+"→"] = append(e.ptAlias[f+"→"], tf)
								}
							}
						}
					}
				}
			}
		}
	}
}

func calleeNameOf(cc *ssa.CallCommon) string {
	if cc.IsInvoke() {
		return cc.Method.Name()
	}
	if sc := cc.StaticCallee(); sc != nil {
		return sc.Name()
	}
	return ""
}

// selfGuardedStruct: a named struct type with a sync.Mutex / sync.RWMutex field of its own.
func selfGuardedStruct(t types.Type) bool {
	n, ok := t.(*types.Named)
	if !ok {
		return false
	}
	st, ok := n.Underlying().(*types.Struct)
	if !ok {
		return false
	}
	for i := 0; i < st.NumFields(); i++ {
		if fn, isN := st.Field(i).Type().(*types.Named); isN && fn.Obj().Pkg() != nil && fn.Obj().Pkg().Path() == "sync" && (fn.Obj().Name() == "Mutex" || fn.Obj().Name() == "RWMutex") {
			return true
		}
	}
	return false
}
