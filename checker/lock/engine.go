// Package lock is the lock engine: a context-sensitive, path-sensitive interpretation of the module's
// functions that tracks which lock classes are held at every instruction.  From it the rules derive the
// lock-order graph, self-acquisitions, unpaired acquisitions, and the lockset of every field access.
package lock

import (
	"fmt"
	"go/token"
	"go/types"
	"sort"

	"golang.org/x/tools/go/ssa"

	"olacheck/an"
	"olacheck/core"
	"olacheck/roles"
)

// Kind of a lock class.
type Kind int

const (
	Mutex    Kind = iota // sync.Mutex / sync.RWMutex field
	Token                // one-slot channel used as a binary semaphore (received = taken, sent = put back)
	Hold                 // sync.WaitGroup field: Add = take (never blocks), Done = release, Wait = wait for all holders
	Activity             // "a handler is running": held by every handler root, waited for by http.Server.Shutdown
)

func (k Kind) String() string { return [...]string{"mutex", "token", "hold", "activity"}[k] }

// Class is a lock class: (struct type, field).
type Class struct {
	Name string // e.g. store.dirRepo.mu
	Kind Kind
}

// Site identifies where an inner acquisition happened and in which frame the outer lock was taken.
type Site struct {
	Holder   string // function in which the held lock was acquired
	Acquirer string // function containing the blocking operation
	Pos      token.Pos
	Chain    string // call chain from the holder to the acquirer
	Wait     bool
}

// Access is one access to a field of a shared struct.
type Access struct {
	Field string // type.field
	Write bool
	Held  uint64
	Func  string
	Pos   token.Pos
	Unpub bool // the object is not yet published at this access (constructor context)
	Root  string
}

// Leak is a lock held (or a release without acquisition) at the exit of a root.
type Leak struct {
	Root    string
	Class   int
	Release bool // released though not held (double Done / Unlock of an unlocked mutex)
	Pos     token.Pos
	Func    string
}

// SelfAcq is an acquisition of a class that is already held.
type SelfAcq struct {
	Class int
	Func  string
	Pos   token.Pos
	Chain string
}

type ctxKey struct {
	fn        *ssa.Function
	fam       int
	params    string
	fvs       string
	held      uint64
	unpub     string
	recvNN    bool       // the receiver is known to be non-nil
	recvAlloc *ssa.Alloc // the caller's local object the receiver points to (resolves its function-typed fields)
}

type acq struct {
	class     int
	fn        string
	pos       token.Pos
	entryMask uint64 // locks held at the acquisition that were already held at the entry of the frame owning this record
	chain     string
	wait      bool
}

type exitEff struct {
	held   uint64
	rel    uint64 // released although not held
	errNil int8   // 0 unknown, 1 nil, 2 non-nil
	bools  uint16 // 2 bits per result index (0..7) of boolean results other than a trailing ok: 0 unknown, 1 false, 2 true
	retRel uint64 // classes the function value this exit hands out releases when it is called (`defer lockX(&mu)()`)
}

type summary struct {
	exits []exitEff
	acqs  []acq
	done  bool
}

// Engine holds the results.
// fnArg is a function value bound to a function-typed parameter in a calling context.
type fnArg struct {
	fn *ssa.Function
	mc *ssa.MakeClosure
}

type Engine struct {
	fnArgs map[string]fnArg
	P      *core.Prog
	R      *roles.Roles

	Classes  []Class
	classIdx map[string]int

	sums  map[ctxKey]*summary
	stack []*frame

	// results
	Edges    map[[2]int]map[string]Site // (held, acquired) -> site key -> site
	Selfs    map[string]SelfAcq
	Accesses map[string]map[string]Access // field -> dedupe key -> access
	Leaks    map[string]Leak
	ExitDiff map[string]string // functions whose exits disagree on the net mutex effect
	Roots    []string
	Contexts int
	Notes    []string
	TokenOps []TokenOp
	HoldAdds []HoldAdd
	Waits    []WaitEv
	// MustHeld / MayHeld: locks held at a call instruction in every / some analysed context
	MustHeld map[ssa.Instruction]uint64
	MayHeld  map[ssa.Instruction]uint64
	CallRecs map[string]CallRec
	// NetHold: functions whose exits change the hold / token resources, with a description
	NetHold map[string]string

	scope       []string
	tokenFields map[string]bool // type.field of channels used as tokens
	escMemo     map[string]*escSum
	funcFields  map[string]int
	nnFields    map[string]int8
	curRoot     string
	// ptAlias: pseudo-field "T.w→" -> pseudo-fields of the objects a wrapper stored in w writes through to
	ptAlias   map[string][]string
	funcsSeen map[*ssa.Function]bool
}

// CallRec records the context of one call (for the locked-flag rule).
type CallRec struct {
	Callee *ssa.Function
	Caller string
	Params string
	Held   uint64
	Unpub  string
	Pos    token.Pos
}

// TokenOp is a receive on a token channel.
type TokenOp struct {
	Class      int
	Func       string
	Pos        token.Pos
	InSelect   bool
	Cancelable bool // the select also waits for a context's Done channel
	Blocking   bool
	Held       uint64 // locks held while waiting for the token
}

// HoldAdd is a WaitGroup.Add on a repository hold.
type HoldAdd struct {
	Class int
	Func  string
	Pos   token.Pos
	Held  uint64
	Unpub bool
}

// WaitEv is a WaitGroup.Wait.
type WaitEv struct {
	Class int
	Func  string
	Pos   token.Pos
	Held  uint64
}

type frame struct {
	fn   *ssa.Function
	ctx  ctxKey
	acqs []acq
	pos  token.Pos // call position in the caller
}

// New creates an engine.
func New(p *core.Prog, r *roles.Roles) *Engine {
	e := &Engine{P: p, R: r, classIdx: map[string]int{}, sums: map[ctxKey]*summary{},
		Edges: map[[2]int]map[string]Site{}, Selfs: map[string]SelfAcq{}, Accesses: map[string]map[string]Access{},
		Leaks: map[string]Leak{}, ExitDiff: map[string]string{}, tokenFields: map[string]bool{}, funcsSeen: map[*ssa.Function]bool{},
		MustHeld: map[ssa.Instruction]uint64{}, MayHeld: map[ssa.Instruction]uint64{}, CallRecs: map[string]CallRec{}, NetHold: map[string]string{}}
	e.class("activity", Activity)
	e.findTokens()
	return e
}

func (e *Engine) class(name string, k Kind) int {
	if i, ok := e.classIdx[name]; ok {
		return i
	}
	i := len(e.Classes)
	if i >= 63 {
		panic("too many lock classes")
	}
	e.Classes = append(e.Classes, Class{Name: name, Kind: k})
	e.classIdx[name] = i
	return i
}

// ClassByName returns the index of a class.
func (e *Engine) ClassByName(n string) (int, bool) { i, ok := e.classIdx[n]; return i, ok }

// HeldNames renders a held set.
func (e *Engine) HeldNames(h uint64) []string {
	var out []string
	for i := range e.Classes {
		if h&(1<<uint(i)) != 0 {
			out = append(out, e.Classes[i].Name)
		}
	}
	return out
}

// MutexMask is the set of mutex classes.
func (e *Engine) MutexMask() uint64 {
	var m uint64
	for i, c := range e.Classes {
		if c.Kind == Mutex {
			m |= 1 << uint(i)
		}
	}
	return m
}

func (e *Engine) inScope(fn *ssa.Function) bool {
	return e.P.InModule(fn) && fn.Blocks != nil
}

// fieldOf decodes &x.f into (type name, field name, base value).
func (e *Engine) fieldOf(v ssa.Value) (typ, field string, base ssa.Value, ok bool) {
	fa, isFA := v.(*ssa.FieldAddr)
	if !isFA {
		return "", "", nil, false
	}
	st := an.Deref(fa.X.Type())
	n := an.NamedOf(st)
	s, isStruct := st.Underlying().(*types.Struct)
	if n == nil || !isStruct {
		return "", "", nil, false
	}
	return e.P.TypeName(n), s.Field(fa.Field).Name(), fa.X, true
}

// findTokens: fields of type chan struct{} that are both received from and sent to in the module.
func (e *Engine) findTokens() {
	recv, send := map[string]bool{}, map[string]bool{}
	for _, fn := range e.P.ModFuncs {
		an.Instrs(fn, func(in ssa.Instruction) {
			switch x := in.(type) {
			case *ssa.UnOp:
				if x.Op == token.ARROW {
					if k := e.chanField(x.X); k != "" {
						recv[k] = true
					}
				}
			case *ssa.Send:
				if k := e.chanField(x.Chan); k != "" {
					send[k] = true
				}
			case *ssa.Select:
				for _, st := range x.States {
					if k := e.chanField(st.Chan); k != "" {
						if st.Dir == types.RecvOnly {
							recv[k] = true
						} else {
							send[k] = true
						}
					}
				}
			}
		})
	}
	// operations on a channel parameter (the receiver of a method of a named channel type: g.hold(), g.release())
	// count for the fields handed to that parameter
	type ops struct{ recv, send bool }
	paramOps := map[*ssa.Function]map[int]*ops{}
	for _, fn := range e.P.ModFuncs {
		note := func(v ssa.Value, isRecv bool) {
			p, ok := an.Origin(v).(*ssa.Parameter)
			if !ok || p.Parent() != fn || !isTokenChanType(p.Type()) {
				return
			}
			for i, q := range fn.Params {
				if q == p {
					if paramOps[fn] == nil {
						paramOps[fn] = map[int]*ops{}
					}
					if paramOps[fn][i] == nil {
						paramOps[fn][i] = &ops{}
					}
					if isRecv {
						paramOps[fn][i].recv = true
					} else {
						paramOps[fn][i].send = true
					}
				}
			}
		}
		an.Instrs(fn, func(in ssa.Instruction) {
			switch x := in.(type) {
			case *ssa.UnOp:
				if x.Op == token.ARROW {
					note(x.X, true)
				}
			case *ssa.Send:
				note(x.Chan, false)
			case *ssa.Select:
				for _, st := range x.States {
					note(st.Chan, st.Dir == types.RecvOnly)
				}
			}
		})
	}
	for _, fn := range e.P.ModFuncs {
		an.Calls(fn, func(c ssa.CallInstruction) {
			sc := c.Common().StaticCallee()
			if sc == nil || paramOps[sc] == nil {
				return
			}
			for i, o := range paramOps[sc] {
				if i >= len(c.Common().Args) {
					continue
				}
				if k := e.chanField(c.Common().Args[i]); k != "" {
					if o.recv {
						recv[k] = true
					}
					if o.send {
						send[k] = true
					}
				}
			}
		})
	}
	for k := range recv {
		if send[k] {
			e.tokenFields[k] = true
		}
	}
}

// chanField returns "type.field" when v is a load of a struct field of type chan struct{}.
func (e *Engine) chanField(v ssa.Value) string {
	u, ok := v.(*ssa.UnOp)
	if !ok || u.Op != token.MUL {
		return ""
	}
	t, f, _, ok := e.fieldOf(u.X)
	if !ok {
		return ""
	}
	ch, isCh := u.Type().Underlying().(*types.Chan)
	if !isCh {
		return ""
	}
	if st, ok := ch.Elem().Underlying().(*types.Struct); !ok || st.NumFields() != 0 {
		return ""
	}
	return t + "." + f
}

func (e *Engine) note(format string, args ...any) {
	s := fmt.Sprintf(format, args...)
	for _, n := range e.Notes {
		if n == s {
			return
		}
	}
	e.Notes = append(e.Notes, s)
}

// ---- roots ----

// RootSpec is an entry point of the analysis.
type RootSpec struct {
	Fn     *ssa.Function
	Fam    int
	Held   uint64
	Name   string
	Params string // parameter bindings of the root's context (sync primitives handed to a goroutine by address)
}

// Run analyses the program's entry points: every exported function and method of the root package
// (once per store family; the HTTP router with the handler-activity resource held), the command's
// main function, and every goroutine / timer target discovered on the way.
func (e *Engine) Run(scopePkgs []string) {
	e.scope = scopePkgs
	e.pointeeAliases()
	var roots []RootSpec
	act := uint64(1) << uint(e.classIdx["activity"])
	for _, fn := range e.P.ModFuncs {
		pp := core.FuncPkgPath(fn)
		if fn.Parent() != nil || fn.Synthetic != "" {
			continue
		}
		if pp == e.R.CmdPath && fn.Name() == "main" && fn.Signature.Recv() == nil {
			roots = append(roots, RootSpec{Fn: fn, Fam: -1, Name: "main"})
			continue
		}
		if pp != e.R.RootPath {
			continue
		}
		if fn == e.R.Router {
			for i := range e.R.Families {
				roots = append(roots, RootSpec{Fn: fn, Fam: i, Held: act, Name: "handler/" + e.R.Families[i].Name})
			}
			continue
		}
		if fn.Object() == nil || !fn.Object().Exported() || !e.apiRoot(fn) {
			continue
		}
		for i := range e.R.Families {
			roots = append(roots, RootSpec{Fn: fn, Fam: i, Name: "api/" + e.R.Families[i].Name})
		}
	}
	// cobra commands run their RunE function values: treat every function of the command package that
	// is stored as a RunE/Run field as a root as well
	for _, fn := range e.P.Funcs("cmd/olareg") {
		if fn.Parent() == nil && fn.Signature.Recv() != nil && fn.Name() == "run" {
			roots = append(roots, RootSpec{Fn: fn, Fam: -1, Name: "main"})
		}
	}
	sort.SliceStable(roots, func(i, j int) bool {
		if roots[i].Fn.Pos() != roots[j].Fn.Pos() {
			return roots[i].Fn.Pos() < roots[j].Fn.Pos()
		}
		return roots[i].Name < roots[j].Name
	})
	for _, r := range roots {
		e.runRoot(r)
	}
}

// Unreached lists the functions of the scope packages no root reaches.
func (e *Engine) Unreached() []string {
	var out []string
	for _, fn := range e.P.ModFuncs {
		pp := core.FuncPkgPath(fn)
		in := false
		for _, s := range e.scope {
			if s == pp {
				in = true
			}
		}
		if !in || e.funcsSeen[fn] || fn.Synthetic != "" {
			continue
		}
		if fn.TypeParams().Len() > 0 && len(fn.TypeArgs()) == 0 {
			continue
		}
		out = append(out, e.P.FuncName(fn))
	}
	sort.Strings(out)
	return out
}

func (e *Engine) famIndex(f *roles.Family) int {
	for i, x := range e.R.Families {
		if x == f {
			return i
		}
	}
	return -1
}

func (e *Engine) runRoot(r RootSpec) {
	name := r.Name + ":" + e.P.FuncName(r.Fn)
	e.Roots = append(e.Roots, name)
	saved := e.curRoot
	savedStack := e.stack
	e.curRoot = name
	e.stack = nil
	ctx := ctxKey{fn: r.Fn, fam: r.Fam, held: r.Held, params: r.Params}
	s := e.analyze(ctx, token.NoPos)
	for _, ex := range s.exits {
		extra := ex.held &^ r.Held
		for i := range e.Classes {
			if extra&(1<<uint(i)) != 0 {
				k := fmt.Sprintf("%s|%s|held", name, e.Classes[i].Name)
				e.Leaks[k] = Leak{Root: name, Class: i, Func: e.P.FuncName(r.Fn), Pos: r.Fn.Pos()}
			}
			if ex.rel&(1<<uint(i)) != 0 {
				k := fmt.Sprintf("%s|%s|released", name, e.Classes[i].Name)
				e.Leaks[k] = Leak{Root: name, Class: i, Release: true, Func: e.P.FuncName(r.Fn), Pos: r.Fn.Pos()}
			}
		}
	}
	// edges from locks held at the root's entry
	for _, a := range s.acqs {
		e.emit(a, a.entryMask, "<"+name+">")
	}
	e.curRoot = saved
	e.stack = savedStack
}

// emit records order edges A -> a.class for every A in mask, attributing A to holder.
func (e *Engine) emit(a acq, mask uint64, holder string) {
	for i := range e.Classes {
		if mask&(1<<uint(i)) == 0 {
			continue
		}
		if i == a.class {
			continue // self acquisition is reported separately
		}
		k := [2]int{i, a.class}
		if e.Edges[k] == nil {
			e.Edges[k] = map[string]Site{}
		}
		sk := holder + " -> " + a.fn
		if _, ok := e.Edges[k][sk]; !ok {
			e.Edges[k][sk] = Site{Holder: holder, Acquirer: a.fn, Pos: a.pos, Chain: a.chain, Wait: a.wait}
		}
	}
}

// apiRoot: exported functions, exported methods of exported types, and methods that implement an
// exported interface of the module (the store API) on an unexported type.
func (e *Engine) apiRoot(fn *ssa.Function) bool {
	if fn.Signature.Recv() == nil {
		return true
	}
	n := an.NamedOf(fn.Signature.Recv().Type())
	if n == nil {
		return false
	}
	if n.Obj().Exported() {
		return true
	}
	for _, it := range []*types.Named{e.R.IStore, e.R.IRepo, e.R.IBlobCreator} {
		if it == nil {
			continue
		}
		iface := it.Underlying().(*types.Interface)
		if types.Implements(types.NewPointer(n), iface) && e.R.APIMethods[it.Obj().Name()][fn.Name()] {
			return true
		}
	}
	return false
}

// MethodOf exposes method lookup to the rules.
func (e *Engine) MethodOf(n *types.Named, name string) *ssa.Function { return e.method(n, name) }
