package lock

import (
	"fmt"
	"go/token"
	"go/types"
	"sort"
	"strconv"
	"strings"

	"golang.org/x/tools/go/ssa"

	"olacheck/an"
	"olacheck/core"
)

type lstate struct {
	held    uint64
	quiet   uint64 // holds taken on objects this frame has not published yet: no source of order edges
	rel     uint64
	cells   uint64 // 2 bits per tracked boolean (0 unknown, 1 false, 2 true)
	defers  uint32
	pend    int32  // id of the call whose error nil-ness is pending, -1 none
	pendNil int8   // 1 nil, 2 non-nil
	pendB   uint16 // pending facts about the call's boolean results (2 bits per result index: 1 false, 2 true)
	dead    bool   // blocked forever (self-acquisition)
	fnrel   uint64 // classes the release function most recently obtained from a locking helper gives back when called
}

// funcAn is the per-(function, context) interpretation.
type funcAn struct {
	e       *Engine
	fn      *ssa.Function
	ctx     ctxKey
	fr      *frame
	boolIdx map[ssa.Value]int
	defers  []*ssa.Defer
	callID  map[ssa.Instruction]int32
	exits   map[exitEff]bool
	escapes map[*ssa.Alloc][]ssa.Instruction
	fresh   map[ssa.Value][]ssa.Instruction // escape points of pointers a constructor step handed back (see freshResult)
	unpub   map[string]bool
}

func (e *Engine) analyze(ctx ctxKey, callPos token.Pos) *summary {
	if s, ok := e.sums[ctx]; ok {
		if !s.done {
			e.note("recursion through %s: the inner call is treated as having no lock effect", e.P.FuncName(ctx.fn))
			return &summary{exits: []exitEff{{held: ctx.held}}, done: true}
		}
		return s
	}
	s := &summary{}
	e.sums[ctx] = s
	e.Contexts++
	e.funcsSeen[ctx.fn] = true
	fr := &frame{fn: ctx.fn, ctx: ctx, pos: callPos}
	e.stack = append(e.stack, fr)
	fa := &funcAn{e: e, fn: ctx.fn, ctx: ctx, fr: fr, boolIdx: map[ssa.Value]int{}, callID: map[ssa.Instruction]int32{},
		exits: map[exitEff]bool{}, escapes: map[*ssa.Alloc][]ssa.Instruction{}, fresh: map[ssa.Value][]ssa.Instruction{}, unpub: map[string]bool{}}
	for _, u := range strings.Split(ctx.unpub, ",") {
		if u != "" {
			fa.unpub[u] = true
		}
	}
	fa.prepare()
	an.Paths(an.PathSpec[lstate]{Fn: ctx.fn, Init: lstate{held: ctx.held, pend: -1}, Instr: fa.instr, Edge: fa.edge})
	e.stack = e.stack[:len(e.stack)-1]
	for ex := range fa.exits {
		s.exits = append(s.exits, ex)
	}
	sort.Slice(s.exits, func(i, j int) bool {
		a, b := s.exits[i], s.exits[j]
		if a.held != b.held {
			return a.held < b.held
		}
		if a.rel != b.rel {
			return a.rel < b.rel
		}
		return a.errNil < b.errNil
	})
	if len(s.exits) == 0 {
		// no normal exit (infinite loop or panic): callers continue with nothing changed
		s.exits = nil
	}
	s.acqs = fr.acqs
	s.done = true
	// net effect on holds and tokens
	var hm uint64
	for i, c := range e.Classes {
		if c.Kind == Hold || c.Kind == Token {
			hm |= 1 << uint(i)
		}
	}
	for _, ex := range s.exits {
		plus, minus := (ex.held&^ctx.held)&hm, (ex.rel|(ctx.held&^ex.held))&hm
		if plus != 0 || minus != 0 {
			d := fmt.Sprintf("+%v -%v", e.HeldNames(plus), e.HeldNames(minus))
			name := e.P.FuncName(ctx.fn)
			if !strings.Contains(e.NetHold[name], d) {
				e.NetHold[name] = strings.TrimSpace(e.NetHold[name] + " " + d)
			}
		}
	}
	// exits that disagree on the net mutex effect without being told apart by the error result
	mm := e.MutexMask()
	var effs []string
	seen := map[string]bool{}
	for _, ex := range s.exits {
		k := fmt.Sprintf("+%v -%v", e.HeldNames((ex.held&^ctx.held)&mm), e.HeldNames((ex.rel|(ctx.held&^ex.held))&mm))
		if !seen[k] {
			seen[k] = true
			effs = append(effs, k)
		}
	}
	if len(effs) > 1 {
		sort.Strings(effs)
		e.ExitDiff[e.P.FuncName(ctx.fn)] = strings.Join(effs, " | ")
	}
	return s
}

func (fa *funcAn) prepare() {
	n := 0
	an.Instrs(fa.fn, func(in ssa.Instruction) {
		switch x := in.(type) {
		case *ssa.Alloc:
			if b, ok := an.Deref(x.Type()).Underlying().(*types.Basic); ok && b.Kind() == types.Bool && n < 30 {
				fa.boolIdx[x] = n
				n++
			}
		case *ssa.Phi:
			if b, ok := x.Type().Underlying().(*types.Basic); ok && b.Kind() == types.Bool && n < 30 {
				fa.boolIdx[x] = n
				n++
			}
		case *ssa.Defer:
			fa.defers = append(fa.defers, x)
		}
		if _, ok := in.(ssa.CallInstruction); ok {
			fa.callID[in] = int32(len(fa.callID))
		}
	})
	// escape points of local allocations of struct types
	an.Instrs(fa.fn, func(in ssa.Instruction) {
		a, ok := in.(*ssa.Alloc)
		if !ok {
			return
		}
		if _, isStruct := an.Deref(a.Type()).Underlying().(*types.Struct); !isStruct {
			return
		}
		fa.escapes[a] = fa.escapePoints(a)
	})
}

// escapePoints returns the instructions at which the address of a local allocation becomes visible to
// code outside this function (stored, passed, captured, converted to an interface, returned).
func (fa *funcAn) escapePoints(a ssa.Value) []ssa.Instruction {
	var out []ssa.Instruction
	var visit func(v ssa.Value, depth int)
	visit = func(v ssa.Value, depth int) {
		if depth > 4 || v.Referrers() == nil {
			return
		}
		for _, r := range *v.Referrers() {
			switch x := r.(type) {
			case *ssa.FieldAddr, *ssa.IndexAddr, *ssa.DebugRef:
			case *ssa.UnOp:
				// load of the whole struct value: a copy, not an escape
			case *ssa.Store:
				if x.Val == v {
					out = append(out, x)
				}
			case ssa.CallInstruction:
				// passing the object to a callee publishes it only if the callee can store it somewhere
				if fa.e.callPublishes(x, v) {
					out = append(out, x)
				}
			case *ssa.Phi:
				visit(x, depth+1)
			case *ssa.MakeInterface, *ssa.MakeClosure, *ssa.Return, *ssa.MapUpdate, *ssa.Send, *ssa.ChangeType, *ssa.Convert:
				out = append(out, r)
			default:
				out = append(out, r)
			}
		}
	}
	visit(a, 0)
	return out
}

// unpublishedAt reports whether the object v points to is a local allocation that has not escaped before `at`.
func (fa *funcAn) unpublishedAt(v ssa.Value, at ssa.Instruction) bool {
	if n := an.NamedOf(v.Type()); n != nil && fa.unpub[fa.e.P.TypeName(n)] {
		return true
	}
	a, ok := v.(*ssa.Alloc)
	if !ok {
		// value loaded from a cell holding the allocation (captured variables): look through single-store cells
		if o := an.Origin(v); o != v {
			if aa, ok2 := o.(*ssa.Alloc); ok2 {
				a = aa
			}
		}
		if a == nil {
			// the object a constructor step of the program built and handed back unpublished
			if esc, isFresh := fa.freshResult(an.Origin(v)); isFresh {
				for _, e := range esc {
					if e != at && an.Reaches(e, at) {
						return false
					}
				}
				return true
			}
			return false
		}
	}
	esc, known := fa.escapes[a]
	if !known {
		return false
	}
	for _, e := range esc {
		if e == at {
			continue
		}
		if an.Reaches(e, at) {
			return false
		}
	}
	return true
}

// freshResult: v is the pointer result of a static call of a function of the program every return of which hands out,
// at that index, nil or a struct it allocated itself and made visible nowhere but in its returns.  The escape points
// of v in this function are returned (computed like those of a local allocation).
func (fa *funcAn) freshResult(v ssa.Value) ([]ssa.Instruction, bool) {
	if esc, ok := fa.fresh[v]; ok {
		return esc, esc != nil
	}
	fa.fresh[v] = nil
	if in, ok := v.(ssa.Instruction); !ok || in.Parent() != fa.fn {
		return nil, false
	}
	call, idx := an.CallOf(v)
	if call == nil {
		return nil, false
	}
	if idx < 0 {
		idx = 0
	}
	h := call.Call.StaticCallee()
	if h == nil || len(h.Blocks) == 0 || !fa.e.inScope(h) || h.Signature.Results().Len() <= idx {
		return nil, false
	}
	if _, isPtr := h.Signature.Results().At(idx).Type().Underlying().(*types.Pointer); !isPtr {
		return nil, false
	}
	ha := &funcAn{e: fa.e, fn: h}
	n := 0
	okAll := true
	an.Instrs(h, func(in ssa.Instruction) {
		ret, isRet := in.(*ssa.Return)
		if !isRet || len(ret.Results) <= idx {
			return
		}
		rv := ret.Results[idx]
		if an.IsNilConst(rv) {
			return
		}
		al, isAlloc := an.Origin(rv).(*ssa.Alloc)
		if !isAlloc {
			okAll = false
			return
		}
		if _, isStruct := an.Deref(al.Type()).Underlying().(*types.Struct); !isStruct {
			okAll = false
			return
		}
		for _, e := range ha.escapePoints(al) {
			if _, atRet := e.(*ssa.Return); !atRet {
				okAll = false
			}
		}
		n++
	})
	if !okAll || n == 0 {
		return nil, false
	}
	esc := fa.escapePoints(v)
	if esc == nil {
		esc = []ssa.Instruction{}
	}
	fa.fresh[v] = esc
	return esc, true
}

func (fa *funcAn) getCell(st lstate, idx int) int8 { return int8((st.cells >> (2 * uint(idx))) & 3) }
func (fa *funcAn) setCell(st lstate, idx int, v int8) lstate {
	st.cells &^= 3 << (2 * uint(idx))
	st.cells |= uint64(v&3) << (2 * uint(idx))
	return st
}

// evalBool: 0 unknown, 1 false, 2 true.
func (fa *funcAn) evalBool(v ssa.Value, st lstate) int8 {
	switch x := v.(type) {
	case *ssa.Const:
		if b, ok := x.Type().Underlying().(*types.Basic); ok && b.Info()&types.IsBoolean != 0 && x.Value != nil {
			if x.Value.String() == "true" {
				return 2
			}
			return 1
		}
	case *ssa.Parameter:
		for i, p := range fa.fn.Params {
			if p == x {
				return ctxBool(fa.ctx.params, i)
			}
		}
	case *ssa.UnOp:
		if x.Op == token.NOT {
			switch fa.evalBool(x.X, st) {
			case 1:
				return 2
			case 2:
				return 1
			}
			return 0
		}
		if x.Op == token.MUL {
			if idx, ok := fa.boolIdx[x.X]; ok {
				return fa.getCell(st, idx)
			}
			// a boolean field of a record the context knows (s.locked)
			if fld, ok := x.X.(*ssa.FieldAddr); ok {
				if v := fa.recordFieldBool(fld.X, fld.Field, st); v != 0 {
					return v
				}
			}
			if fv, ok := x.X.(*ssa.FreeVar); ok {
				for i, f := range fa.fn.FreeVars {
					if f == fv {
						return ctxBool(fa.ctx.fvs, i)
					}
				}
			}
		}
	case *ssa.Field:
		if i := fa.paramIndex(x.X); i >= 0 {
			return ctxFieldBool(fa.ctx.params, i, x.Field)
		}
	case *ssa.Phi:
		if idx, ok := fa.boolIdx[x]; ok {
			return fa.getCell(st, idx)
		}
	}
	return 0
}

func ctxBool(enc string, i int) int8 {
	for _, part := range strings.Split(enc, ",") {
		var idx int
		var val byte
		if n, _ := fmt.Sscanf(part, "%d=%c", &idx, &val); n == 2 && idx == i {
			switch val {
			case 'T':
				return 2
			case 'F':
				return 1
			}
		}
	}
	return 0
}

// ctxFieldBool: the value the context gives the boolean field j of the record parameter i (0 unknown, 1 false, 2 true).
func ctxFieldBool(enc string, i, j int) int8 {
	want := fmt.Sprintf("%d.%d=", i, j)
	for _, part := range strings.Split(enc, ",") {
		if strings.HasPrefix(part, want) && len(part) == len(want)+1 {
			switch part[len(want)] {
			case 'T':
				return 2
			case 'F':
				return 1
			}
		}
	}
	return 0
}

// paramIndex: the index of p among the parameters of the analysed function, -1 when it is none of them.
func (fa *funcAn) paramIndex(v ssa.Value) int {
	for i, p := range fa.fn.Params {
		if ssa.Value(p) == v {
			return i
		}
	}
	return -1
}

// recordFieldBool: the boolean field j of the record at addr — a parameter (by address), the cell a by-value parameter
// was spilled into, or a local record filled field by field with exactly one store to that field.
func (fa *funcAn) recordFieldBool(addr ssa.Value, j int, st lstate) int8 {
	if i := fa.paramIndex(addr); i >= 0 {
		return ctxFieldBool(fa.ctx.params, i, j)
	}
	al, ok := addr.(*ssa.Alloc)
	if !ok || al.Referrers() == nil {
		return 0
	}
	var val ssa.Value
	n := 0
	for _, ref := range *al.Referrers() {
		switch x := ref.(type) {
		case *ssa.Store:
			if x.Addr == ssa.Value(al) {
				// assigned as a whole: from a by-value parameter (the spill of a value receiver)
				if i := fa.paramIndex(x.Val); i >= 0 {
					return ctxFieldBool(fa.ctx.params, i, j)
				}
				return 0
			}
		case *ssa.FieldAddr:
			if x.Field != j || x.Referrers() == nil {
				continue
			}
			for _, rr := range *x.Referrers() {
				if s2, ok := rr.(*ssa.Store); ok && s2.Addr == ssa.Value(x) {
					val = s2.Val
					n++
				}
			}
		}
	}
	if n == 1 {
		return fa.evalBool(val, st)
	}
	return 0
}

// argFieldBool: the boolean field j of the record an argument denotes (the record itself loaded from a local, its
// address, or a parameter passed on).
func (fa *funcAn) argFieldBool(a ssa.Value, j int, st lstate) int8 {
	switch x := a.(type) {
	case *ssa.UnOp:
		if x.Op == token.MUL {
			return fa.recordFieldBool(x.X, j, st)
		}
	case *ssa.Alloc:
		return fa.recordFieldBool(x, j, st)
	case *ssa.Parameter:
		if i := fa.paramIndex(x); i >= 0 {
			return ctxFieldBool(fa.ctx.params, i, j)
		}
	}
	return 0
}

// recordFlagField: t is a struct with exactly one boolean field: its index (-1 otherwise).
func recordFlagField(t types.Type) int {
	st, ok := t.Underlying().(*types.Struct)
	if !ok || st.NumFields() > 6 {
		return -1
	}
	j := -1
	for i := 0; i < st.NumFields(); i++ {
		if bt, ok := st.Field(i).Type().Underlying().(*types.Basic); ok && bt.Kind() == types.Bool {
			if j >= 0 {
				return -1
			}
			j = i
		}
	}
	return j
}

// recordFlagValue: the constant the boolean field j of a returned record holds (0 unknown, 1 false, 2 true): a literal
// built for the return (field stored once with a constant, or never: false), or the zero value.
func recordFlagValue(v ssa.Value, j int) int8 {
	if k, ok := v.(*ssa.Const); ok && k.Value == nil {
		return 1
	}
	ld, ok := v.(*ssa.UnOp)
	if !ok || ld.Op != token.MUL {
		return 0
	}
	al, ok := ld.X.(*ssa.Alloc)
	if !ok || al.Referrers() == nil {
		return 0
	}
	val := int8(1) // a literal that does not mention the field leaves it false
	n := 0
	for _, ref := range *al.Referrers() {
		switch x := ref.(type) {
		case *ssa.Store:
			if x.Addr == ssa.Value(al) {
				return 0
			}
		case *ssa.FieldAddr:
			if x.Field != j || x.Referrers() == nil {
				continue
			}
			for _, rr := range *x.Referrers() {
				if s2, ok := rr.(*ssa.Store); ok && s2.Addr == ssa.Value(x) {
					n++
					k, isC := s2.Val.(*ssa.Const)
					if !isC || k.Value == nil {
						return 0
					}
					if k.Value.String() == "true" {
						val = 2
					} else {
						val = 1
					}
				}
			}
		}
	}
	if n > 1 {
		return 0
	}
	return val
}

// recordFlagRead: v reads the flag of the record result k of a call: Field(extract, j), or the load of that field from
// the local variable the result was assigned to as a whole.
func recordFlagRead(v ssa.Value) (*ssa.Call, int, bool) {
	var rec ssa.Value
	field := -1
	switch x := v.(type) {
	case *ssa.Field:
		rec, field = x.X, x.Field
	case *ssa.UnOp:
		if fa, ok := x.X.(*ssa.FieldAddr); ok && x.Op == token.MUL {
			if whole := an.SingleStore(fa.X); whole != nil {
				rec, field = whole, fa.Field
			}
		}
	}
	if rec == nil || recordFlagField(rec.Type()) != field {
		return nil, 0, false
	}
	switch y := rec.(type) {
	case *ssa.Extract:
		if call, ok := y.Tuple.(*ssa.Call); ok {
			return call, y.Index, true
		}
	case *ssa.Call:
		return y, 0, true
	}
	return nil, 0, false
}

// isTokenChanType: chan struct{} or a named type of it.
func isTokenChanType(t types.Type) bool {
	ch, ok := t.Underlying().(*types.Chan)
	if !ok {
		return false
	}
	st, ok := ch.Elem().Underlying().(*types.Struct)
	return ok && st.NumFields() == 0
}

// ctxSync returns the "type.field" of the sync object bound to parameter i in this context ("" when unknown): a
// WaitGroup or mutex handed to a shared function by address (`go gcTicker(&d.wg, …)`).
func ctxSync(enc string, i int) string {
	for _, part := range strings.Split(enc, ",") {
		k := strings.Index(part, "=@")
		if k <= 0 {
			continue
		}
		if n, err := strconv.Atoi(part[:k]); err == nil && n == i {
			return part[k+2:]
		}
	}
	return ""
}

// chanKey: "type.field" of the token channel v denotes — a load of the field, or a parameter (the receiver of a
// method of a named channel type) the context binds to one.
func (fa *funcAn) chanKey(v ssa.Value) string {
	if k := fa.e.chanField(v); k != "" {
		return k
	}
	if p, ok := an.Origin(v).(*ssa.Parameter); ok && p.Parent() == fa.fn {
		for i, q := range fa.fn.Params {
			if q == p {
				return ctxSync(fa.ctx.params, i)
			}
		}
	}
	// a captured parameter of the enclosing function
	if p, ok := an.Origin(v).(*ssa.Parameter); ok && fa.fn.Parent() != nil && p.Parent() == fa.fn.Parent() {
		for i, q := range p.Parent().Params {
			if q == p {
				return ctxSync(fa.ctx.params, -(i + 1))
			}
		}
	}
	return ""
}

// tokenOwner: the function a token operation is attributed to: the function that names the token field — for an
// operation inside a method of a named channel type (g.hold()), the nearest caller that is not such a method.
func (fa *funcAn) tokenOwner(v ssa.Value) string {
	e := fa.e
	if e.chanField(v) != "" {
		return e.P.FuncName(fa.fn)
	}
	for i := len(e.stack) - 1; i >= 0; i-- {
		f := e.stack[i].fn
		if f.Signature.Recv() != nil && isTokenChanType(f.Signature.Recv().Type()) {
			continue
		}
		return e.P.FuncName(f)
	}
	return e.P.FuncName(fa.fn)
}

// syncField: the struct field ("type", "field", base object) a sync primitive passed to a call lives in — directly
// (&x.f) or through a parameter the context binds.
func (fa *funcAn) syncField(v ssa.Value) (string, string, ssa.Value, bool) {
	if t, f, b, ok := fa.e.fieldOf(v); ok {
		return t, f, b, true
	}
	if p, ok := an.Origin(v).(*ssa.Parameter); ok && p.Parent() == fa.fn {
		for i, q := range fa.fn.Params {
			if q == p {
				if tf := ctxSync(fa.ctx.params, i); tf != "" {
					if k := strings.LastIndex(tf, "."); k > 0 {
						return tf[:k], tf[k+1:], p, true
					}
				}
			}
		}
	}
	// a captured parameter of the enclosing function (see spawn)
	if p, ok := an.Origin(v).(*ssa.Parameter); ok && fa.fn.Parent() != nil && p.Parent() == fa.fn.Parent() {
		for i, q := range p.Parent().Params {
			if q == p {
				if tf := ctxSync(fa.ctx.params, -(i + 1)); tf != "" {
					if k := strings.LastIndex(tf, "."); k > 0 {
						return tf[:k], tf[k+1:], p, true
					}
				}
			}
		}
	}
	return "", "", nil, false
}

func (fa *funcAn) edge(st lstate, from *ssa.BasicBlock, succ int) (lstate, bool) {
	if ifi := an.BlockIf(from); ifi != nil {
		switch fa.evalBool(ifi.Cond, st) {
		case 2:
			if succ != 0 {
				return st, false
			}
		case 1:
			if succ != 1 {
				return st, false
			}
		}
		// nil tests the context decides: function-typed fields (resolved through the call graph) and
		// receivers loaded from fields that only ever hold fresh allocations
		if x, nilSucc, ok := an.NilTest(ifi); ok {
			switch fa.nilness(x) {
			case 1: // nil
				if succ != nilSucc {
					return st, false
				}
			case 2: // non-nil
				if succ == nilSucc {
					return st, false
				}
			}
		}
		// pending nil-ness of a call's error result
		if st.pend >= 0 {
			if x, nilSucc, ok := an.NilTest(ifi); ok {
				if call, _ := an.CallOf(x); call != nil && fa.callID[call] == st.pend && an.IsErrorType(x.Type()) {
					isNil := succ == nilSucc
					if st.pendNil != 0 {
						if (st.pendNil == 1) != isNil {
							return st, false
						}
						st.pendNil = 0
						if st.pendB == 0 {
							st.pend = -1
						}
					}
				}
			}
		}
		// pending flag of a record result (ref, err := lookup(…); if ref.tracked)
		if st.pend >= 0 {
			base, neg := an.CondBase(ifi.Cond)
			if call, k, ok := recordFlagRead(base); ok && fa.callID[call] == st.pend && k < 8 {
				isTrue := (succ == 0) != neg
				if f := (st.pendB >> (2 * uint(k))) & 3; f != 0 {
					if (f == 2) != isTrue {
						return st, false
					}
					st.pendB &^= 3 << (2 * uint(k))
				}
				if st.pendNil == 0 && st.pendB == 0 {
					st.pend = -1
				}
			}
		}
		// pending `ok bool` result of a call
		if st.pend >= 0 {
			base, neg := an.CondBase(ifi.Cond)
			if ex, isEx := base.(*ssa.Extract); isEx {
				if call, isCall := ex.Tuple.(*ssa.Call); isCall && fa.callID[call] == st.pend {
					if bt, isB := ex.Type().Underlying().(*types.Basic); isB && bt.Kind() == types.Bool {
						isTrue := (succ == 0) != neg
						nres := call.Call.Signature().Results().Len()
						if ex.Index == nres-1 && st.pendNil != 0 {
							// trailing `ok bool`: plays the part of the error (true ~ nil)
							if (st.pendNil == 1) != isTrue {
								return st, false
							}
							st.pendNil = 0
						} else if ex.Index < 8 {
							if f := (st.pendB >> (2 * uint(ex.Index))) & 3; f != 0 {
								if (f == 2) != isTrue {
									return st, false
								}
								st.pendB &^= 3 << (2 * uint(ex.Index))
							}
						}
						if st.pendNil == 0 && st.pendB == 0 {
							st.pend = -1
						}
					}
				}
			}
		}
		// select index test: token received on this case
		if x, y, op, ok := an.CmpTest(ifi); ok && op == token.EQL && succ == 0 {
			if ex, ok := x.(*ssa.Extract); ok && ex.Index == 0 {
				if sel, ok := ex.Tuple.(*ssa.Select); ok {
					if k, ok := an.ConstInt(y); ok && int(k) < len(sel.States) {
						stt := sel.States[k]
						if stt.Dir == types.RecvOnly {
							if f := fa.chanKey(stt.Chan); f != "" && fa.e.tokenFields[f] {
								c := fa.e.class(f, Token)
								st = fa.acquire(st, c, sel, false)
							}
						}
					}
				}
			}
		}
	}
	// boolean phis of the successor take the value of this edge's operand
	tgt := from.Succs[succ]
	predIdx := -1
	for i, p := range tgt.Preds {
		if p == from {
			predIdx = i
			break
		}
	}
	if predIdx >= 0 {
		type upd struct {
			idx int
			v   int8
		}
		var ups []upd
		for _, in := range tgt.Instrs {
			phi, ok := in.(*ssa.Phi)
			if !ok {
				break
			}
			if idx, ok := fa.boolIdx[phi]; ok {
				ups = append(ups, upd{idx, fa.evalBool(phi.Edges[predIdx], st)})
			}
		}
		for _, u := range ups {
			st = fa.setCell(st, u.idx, u.v)
		}
	}
	return st, true
}

func (fa *funcAn) chain() string {
	var parts []string
	for _, f := range fa.e.stack {
		parts = append(parts, fa.e.P.FuncName(f.fn))
	}
	if len(parts) > 7 {
		parts = append(parts[:2], append([]string{"…"}, parts[len(parts)-4:]...)...)
	}
	return strings.Join(parts, " → ")
}

// acquire records a blocking acquisition (or a wait) of class c and returns the new state.
func (fa *funcAn) acquire(st lstate, c int, at ssa.Instruction, wait bool) lstate {
	e := fa.e
	bit := uint64(1) << uint(c)
	fname := e.P.FuncName(fa.fn)
	if st.held&bit != 0 && !wait {
		k := fmt.Sprintf("%s|%s", e.Classes[c].Name, fname)
		if _, ok := e.Selfs[k]; !ok {
			e.Selfs[k] = SelfAcq{Class: c, Func: fname, Pos: at.Pos(), Chain: fa.chain()}
		}
		// the goroutine blocks here forever: the path ends
		st.dead = true
		return st
	}
	a := acq{class: c, fn: fname, pos: at.Pos(), chain: fname, wait: wait}
	fa.addAcq(a, st.held&^st.quiet)
	if !wait {
		st.held |= bit
	}
	return st
}

// addAcq splits the held set into the part owned by this frame (edges emitted now) and the part held at
// the frame's entry (propagated to the callers through the summary).
func (fa *funcAn) addAcq(a acq, held uint64) {
	own := held &^ fa.ctx.held
	entry := held & fa.ctx.held
	if own != 0 {
		fa.e.emit(a, own, fa.e.P.FuncName(fa.fn))
	}
	if entry != 0 {
		a.entryMask = entry
		for _, x := range fa.fr.acqs {
			if x.class == a.class && x.fn == a.fn && x.entryMask == a.entryMask && x.wait == a.wait {
				return
			}
		}
		fa.fr.acqs = append(fa.fr.acqs, a)
	}
}

func (fa *funcAn) release(st lstate, c int) lstate {
	bit := uint64(1) << uint(c)
	st.quiet &^= bit
	if st.held&bit != 0 {
		st.held &^= bit
	} else {
		st.rel |= bit
	}
	return st
}

func (fa *funcAn) instr(st lstate, in ssa.Instruction) []lstate {
	e := fa.e
	if st.dead {
		return nil
	}
	fa.recordAccess(st, in)
	switch x := in.(type) {
	case *ssa.Store:
		if idx, ok := fa.boolIdx[x.Addr]; ok {
			st = fa.setCell(st, idx, fa.evalBool(x.Val, st))
		}
	case *ssa.Defer:
		for i, d := range fa.defers {
			if d == x && i < 32 {
				st.defers |= 1 << uint(i)
			}
		}
	case *ssa.RunDefers:
		states := []lstate{st}
		for i := len(fa.defers) - 1; i >= 0; i-- {
			if i >= 32 || st.defers&(1<<uint(i)) == 0 {
				continue
			}
			var next []lstate
			for _, s := range states {
				next = append(next, fa.call(s, fa.defers[i])...)
			}
			states = uniq(next)
		}
		for i := range states {
			states[i].defers = 0
		}
		return states
	case *ssa.Go:
		return []lstate{fa.spawn(st, x)}
	case *ssa.Call:
		return fa.call(st, x)
	case *ssa.UnOp:
		if x.Op == token.ARROW {
			if f := fa.chanKey(x.X); f != "" && e.tokenFields[f] {
				c := e.class(f, Token)
				e.TokenOps = append(e.TokenOps, TokenOp{Class: c, Func: fa.tokenOwner(x.X), Pos: x.Pos(), Blocking: true, Held: st.held})
				st = fa.acquire(st, c, x, false)
			}
		}
	case *ssa.Send:
		if f := fa.chanKey(x.Chan); f != "" && e.tokenFields[f] {
			if u, ok := x.Chan.(*ssa.UnOp); ok {
				if _, _, base, ok := e.fieldOf(u.X); ok && fa.unpublishedAt(base, x) {
					return []lstate{st} // initial fill of a token of an unpublished object
				}
			}
			st = fa.release(st, e.class(f, Token))
		}
	case *ssa.Select:
		for _, s := range x.States {
			if s.Dir != types.RecvOnly {
				continue
			}
			if f := fa.chanKey(s.Chan); f != "" && e.tokenFields[f] {
				cancel := false
				for _, o := range x.States {
					if o.Dir == types.RecvOnly {
						if call, _ := an.CallOf(o.Chan); call != nil && an.IsMethod(call, "context", "Context", "Done") {
							cancel = true
						}
					}
				}
				e.TokenOps = append(e.TokenOps, TokenOp{Class: e.class(f, Token), Func: fa.tokenOwner(s.Chan), Pos: x.Pos(), InSelect: true, Cancelable: cancel, Blocking: x.Blocking, Held: st.held})
			}
		}
	case *ssa.Return:
		ex := exitEff{held: st.held, rel: st.rel}
		if n := len(x.Results); n > 0 && an.IsErrorType(x.Results[n-1].Type()) {
			ex.errNil = fa.errNilness(x.Results[n-1], x)
		} else if n > 0 {
			// an `ok bool` last result plays the role of the error: true ~ nil
			if bt, isB := x.Results[n-1].Type().Underlying().(*types.Basic); isB && bt.Kind() == types.Bool {
				switch fa.boolResult(x.Results[n-1], x) {
				case 2:
					ex.errNil = 1
				case 1:
					ex.errNil = 2
				}
			}
		}
		// other boolean results (e.g. `created bool` in the middle of the result list)
		for k := 0; k < len(x.Results) && k < 8; k++ {
			if k == len(x.Results)-1 && !an.IsErrorType(x.Results[k].Type()) {
				continue // trailing ok handled above
			}
			if bt, isB := x.Results[k].Type().Underlying().(*types.Basic); isB && bt.Kind() == types.Bool {
				if v := fa.boolResult(x.Results[k], x); v != 0 {
					ex.bools |= uint16(v) << (2 * uint(k))
				}
			}
			// a small record with one boolean field (repoRef{repo, tracked}): the flag plays the part of a boolean result
			if j := recordFlagField(x.Results[k].Type()); j >= 0 {
				rv := x.Results[k]
				// a result spilled into a cell because of a defer: what the returning block stored there last
				if u, ok := rv.(*ssa.UnOp); ok && u.Op == token.MUL {
					if cell, ok := u.X.(*ssa.Alloc); ok {
						var last ssa.Value
						for _, in := range x.Block().Instrs {
							if s2, ok := in.(*ssa.Store); ok && s2.Addr == ssa.Value(cell) {
								last = s2.Val
							}
						}
						if last != nil {
							rv = last
						}
					}
				}
				if v := recordFlagValue(rv, j); v != 0 {
					ex.bools |= uint16(v) << (2 * uint(k))
				}
			}
		}
		// a function that locks and hands back the matching unlock (`func lockX(mu *sync.Mutex, held bool) func()`): calling
		// the result releases what this path acquired in this frame — nothing on the path that returns a no-op
		if len(x.Results) == 1 {
			if sig, isSig := x.Results[0].Type().Underlying().(*types.Signature); isSig && sig.Params().Len() == 0 && sig.Results().Len() == 0 {
				if returnsUnlock(x.Results[0], 0) {
					ex.retRel = (st.held &^ fa.ctx.held) & e.MutexMask()
				}
			}
		}
		fa.exits[ex] = true
		return nil
	case *ssa.Panic:
		return nil
	}
	return []lstate{st}
}

// errNilness classifies a returned error value: 1 nil, 2 certainly non-nil, 0 unknown.
func (fa *funcAn) errNilness(v ssa.Value, ret *ssa.Return) int8 {
	// defer-spilled results: the value is a load of a local cell; take the last store in this block
	if u, ok := v.(*ssa.UnOp); ok && u.Op == token.MUL {
		if a, ok := u.X.(*ssa.Alloc); ok {
			var last ssa.Value
			for _, in := range ret.Block().Instrs {
				if s, ok := in.(*ssa.Store); ok && s.Addr == a {
					last = s.Val
				}
			}
			if last == nil {
				return 0
			}
			v = last
		}
	}
	if an.IsNilConst(v) {
		return 1
	}
	if call, _ := an.CallOf(v); call != nil {
		if an.IsFunc(call, "fmt", "Errorf") || an.IsFunc(call, "errors", "New") {
			return 2
		}
		// context.Context.Err is non-nil once Done is closed (documented); it is only consulted on that case here
		if an.IsMethod(call, "context", "Context", "Err") {
			return 2
		}
	}
	// returned on the non-nil edge of a test of the same value
	for _, g := range an.GuardingEdges(ret.Block()) {
		if x, nilSucc, ok := an.NilTest(g.If()); ok && x == v && g.Succ != nilSucc {
			return 2
		}
	}
	if _, ok := an.Strip(v).(*ssa.Global); ok {
		return 2
	}
	if u, ok := an.Strip(v).(*ssa.UnOp); ok && u.Op == token.MUL {
		if _, isG := u.X.(*ssa.Global); isG {
			return 2 // sentinel error variable
		}
	}
	return 0
}

func uniq(in []lstate) []lstate {
	seen := map[lstate]bool{}
	var out []lstate
	for _, s := range in {
		if !seen[s] {
			seen[s] = true
			out = append(out, s)
		}
	}
	return out
}

// syncOp classifies calls of sync primitives on struct fields.
func (fa *funcAn) syncOp(call ssa.CallInstruction) (op string, class int, base ssa.Value, ok bool) {
	fn := call.Common().StaticCallee()
	if fn == nil || fn.Signature.Recv() == nil || len(call.Common().Args) == 0 {
		return "", 0, nil, false
	}
	n := an.NamedOf(fn.Signature.Recv().Type())
	if n == nil || n.Obj().Pkg() == nil || n.Obj().Pkg().Path() != "sync" {
		return "", 0, nil, false
	}
	t, f, b, isField := fa.syncField(call.Common().Args[0])
	if !isField {
		return "", 0, nil, false
	}
	switch n.Obj().Name() {
	case "Mutex", "RWMutex":
		switch fn.Name() {
		case "Lock":
			return "lock", fa.e.class(t+"."+f, Mutex), b, true
		case "Unlock":
			return "unlock", fa.e.class(t+"."+f, Mutex), b, true
		case "RLock":
			// the shared mode is a class of its own ("…#r"): it protects reads against writers, never writes
			return "lock", fa.e.class(t+"."+f+"#r", Mutex), b, true
		case "RUnlock":
			return "unlock", fa.e.class(t+"."+f+"#r", Mutex), b, true
		}
	case "WaitGroup":
		switch fn.Name() {
		case "Add":
			return "add", fa.e.class(t+"."+f, Hold), b, true
		case "Done":
			return "done", fa.e.class(t+"."+f, Hold), b, true
		case "Wait":
			return "wait", fa.e.class(t+"."+f, Hold), b, true
		}
	}
	return "", 0, nil, false
}

func (fa *funcAn) call(st lstate, call ssa.CallInstruction) []lstate {
	e := fa.e
	if m, ok := e.MustHeld[call]; ok {
		e.MustHeld[call] = m & st.held
	} else {
		e.MustHeld[call] = st.held
	}
	e.MayHeld[call] |= st.held
	if op, c, base, ok := fa.syncOp(call); ok {
		switch op {
		case "lock":
			return []lstate{fa.acquire(st, c, call, false)}
		case "unlock":
			return []lstate{fa.release(st, c)}
		case "add":
			unpub := fa.unpublishedAt(base, call)
			e.HoldAdds = append(e.HoldAdds, HoldAdd{Class: c, Func: e.P.FuncName(fa.fn), Pos: call.Pos(), Held: st.held, Unpub: unpub})
			st.held |= 1 << uint(c)
			if unpub {
				st.quiet |= 1 << uint(c)
			}
			return []lstate{st}
		case "done":
			return []lstate{fa.release(st, c)}
		case "wait":
			e.Waits = append(e.Waits, WaitEv{Class: c, Func: e.P.FuncName(fa.fn), Pos: call.Pos(), Held: st.held})
			return []lstate{fa.acquire(st, c, call, true)}
		}
	}
	if an.IsMethod(call, "net/http", "Server", "Shutdown") {
		return []lstate{fa.acquire(st, e.classIdx["activity"], call, true)}
	}
	if an.IsFunc(call, "time", "AfterFunc") && len(call.Common().Args) == 2 {
		if fn, _ := fa.resolveFunc(call.Common().Args[1], 0); fn != nil {
			e.spawnRoot(fn, fa.ctx.fam, 0, "timer")
		}
		return []lstate{st}
	}
	// calling the function value a locking helper handed back: release what it acquired
	if cc := call.Common(); !cc.IsInvoke() && cc.StaticCallee() == nil {
		if src, isCall := an.Strip(cc.Value).(*ssa.Call); isCall {
			h := src.Call.StaticCallee()
			single, _ := fa.resolveFunc(cc.Value, 0)
			// (a helper every return of which hands out the same function literal is entered as that literal, below)
			if h != nil && e.inScope(h) && returnsFuncValue(h) && single == nil {
				for c := 0; c < 64; c++ {
					if st.fnrel&(1<<uint(c)) != 0 {
						st = fa.release(st, c)
					}
				}
				st.fnrel = 0
				return []lstate{st}
			}
		}
	}
	targets := fa.targets(call)
	if len(targets) == 0 {
		return []lstate{st}
	}
	var out []lstate
	for _, t := range targets {
		out = append(out, fa.apply(st, call, t)...)
	}
	return uniq(out)
}

type target struct {
	fn     *ssa.Function
	args   []ssa.Value // aligned with fn.Params when known, else nil
	mc     *ssa.MakeClosure
	extern bool      // reached through an external function (arguments unknown)
	recv   ssa.Value // extern: the value whose method is called back
}

// resolveFunc finds the module function a function value denotes.
func (fa *funcAn) resolveFunc(v ssa.Value, depth int) (*ssa.Function, *ssa.MakeClosure) {
	if depth > 5 {
		return nil, nil
	}
	switch x := an.Origin(v).(type) {
	case *ssa.Function:
		return x, nil
	case *ssa.Parameter:
		if x.Parent() == fa.fn {
			for i, q := range fa.fn.Params {
				if q == x {
					if b, ok := fa.e.fnArgs[ctxSync(fa.ctx.params, i)]; ok {
						return b.fn, b.mc
					}
				}
			}
		}
	case *ssa.MakeClosure:
		if fn, ok := x.Fn.(*ssa.Function); ok {
			return fn, x
		}
	case *ssa.Call:
		// a call returning a closure: every return of the callee must produce the same function
		if cal := x.Call.StaticCallee(); cal != nil && cal.Blocks != nil {
			var res *ssa.Function
			var rmc *ssa.MakeClosure
			okAll := true
			an.Instrs(cal, func(in ssa.Instruction) {
				if r, ok := in.(*ssa.Return); ok && len(r.Results) == 1 {
					helper := &funcAn{e: fa.e, fn: cal}
					f, mc := helper.resolveFunc(r.Results[0], depth+1)
					if f == nil || (res != nil && res != f) {
						okAll = false
					}
					res, rmc = f, mc
				}
			})
			if okAll && res != nil {
				return res, rmc
			}
		}
	}
	return nil, nil
}

// targets resolves the module functions a call may enter, with the held set of the caller.
func (fa *funcAn) targets(call ssa.CallInstruction) []target {
	e := fa.e
	cc := call.Common()
	var out []target
	var curRecv ssa.Value
	add := func(fn *ssa.Function, args []ssa.Value, mc *ssa.MakeClosure, ext bool) {
		if fn == nil || !e.inScope(fn) {
			return
		}
		for _, t := range out {
			if t.fn == fn {
				return
			}
		}
		out = append(out, target{fn: fn, args: args, mc: mc, extern: ext, recv: curRecv})
	}
	if cc.IsInvoke() {
		if iface, m, ok := e.R.API(call); ok {
			for i, fam := range e.R.Families {
				if fa.ctx.fam >= 0 && fa.ctx.fam != i {
					continue
				}
				var recv *types.Named
				switch iface {
				case "Store":
					recv = fam.Store
				case "Repo":
					recv = fam.Repo
				case "BlobCreator":
					recv = fam.Upload
				}
				if fn := e.method(recv, m); fn != nil {
					add(fn, append([]ssa.Value{cc.Value}, cc.Args...), nil, false)
				}
			}
			return out
		}
		for _, fn := range e.P.Callees(call) {
			add(fn, append([]ssa.Value{cc.Value}, cc.Args...), nil, false)
		}
		// ServeHTTP on a handler a routing step of the module handed back (`s.route(method, path).ServeHTTP(w, r)`): the
		// handler functions that step can return
		if cc.Method != nil && cc.Method.Name() == "ServeHTTP" {
			for _, hf := range fa.returnedHandlers(cc.Value, 0) {
				add(hf.fn, cc.Args, hf.mc, false)
			}
		}
		return out
	}
	if fn := cc.StaticCallee(); fn != nil {
		if e.inScope(fn) {
			var mc *ssa.MakeClosure
			if m, ok := cc.Value.(*ssa.MakeClosure); ok {
				mc = m
			}
			add(fn, cc.Args, mc, false)
			return out
		}
		// external function: it may call back into the module through its arguments
		sig := fn.Signature
		params := []*types.Var{}
		if sig.Recv() != nil {
			params = append(params, sig.Recv())
		}
		for i := 0; i < sig.Params().Len(); i++ {
			params = append(params, sig.Params().At(i))
		}
		for i, a := range cc.Args {
			if f, mc := fa.resolveFunc(a, 0); f != nil {
				add(f, nil, mc, true)
				continue
			}
			var pt types.Type
			if i < len(params) {
				pt = params[i].Type()
			}
			curRecv = a
			fa.callbackMethods(a, pt, add)
			curRecv = nil
		}
		return out
	}
	// call of a function value stored in a field of the receiver, when the receiver is a known local object
	if fa.ctx.recvAlloc != nil {
		if f, mc := fa.resolveFieldFunc(cc.Value); f != nil {
			add(f, cc.Args, mc, false)
			return out
		}
	}
	// call of a function value
	if f, mc := fa.resolveFunc(cc.Value, 0); f != nil {
		add(f, cc.Args, mc, false)
		return out
	}
	for _, fn := range e.P.Callees(call) {
		// a function value the call graph resolves to methods of several store families (a method value handed to a
		// shared function): in the context of one family only that family's method is meant
		if fa.ctx.fam >= 0 {
			if f := e.familyOfTarget(fn); f >= 0 && f != fa.ctx.fam {
				continue
			}
		}
		add(fn, cc.Args, nil, false)
	}
	return out
}

// familyOfTarget: the store family a call target belongs to (through the bound-method wrapper of a method value), -1
// when it belongs to none.
func (e *Engine) familyOfTarget(fn *ssa.Function) int {
	if f := e.R.FamilyOfFunc(fn); f != nil {
		return e.famIndex(f)
	}
	if strings.HasPrefix(fn.Synthetic, "bound method wrapper") || strings.HasPrefix(fn.Synthetic, "wrapper for") || strings.HasPrefix(fn.Synthetic, "thunk for") {
		res := -1
		an.Calls(fn, func(c ssa.CallInstruction) {
			if sc := c.Common().StaticCallee(); sc != nil {
				if f := e.R.FamilyOfFunc(sc); f != nil {
					res = e.famIndex(f)
				}
			}
		})
		return res
	}
	return -1
}

// callbackMethods: an external function receiving a module value through an interface parameter may
// call the methods of that interface on it.
func (fa *funcAn) callbackMethods(arg ssa.Value, paramType types.Type, add func(*ssa.Function, []ssa.Value, *ssa.MakeClosure, bool)) {
	e := fa.e
	if paramType == nil {
		return
	}
	if s, ok := paramType.(*types.Slice); ok {
		paramType = s.Elem()
	}
	pi, ok := paramType.Underlying().(*types.Interface)
	if !ok || pi.NumMethods() == 0 {
		return
	}
	v := an.Origin(arg)
	t := v.Type()
	n := an.NamedOf(t)
	if n == nil || n.Obj().Pkg() == nil || !strings.HasPrefix(n.Obj().Pkg().Path(), e.P.Module) {
		return
	}
	var recvs []*types.Named
	if _, isIface := n.Underlying().(*types.Interface); isIface {
		for i, fam := range e.R.Families {
			if fa.ctx.fam >= 0 && fa.ctx.fam != i {
				continue
			}
			switch n {
			case e.R.IStore:
				recvs = append(recvs, fam.Store)
			case e.R.IRepo:
				recvs = append(recvs, fam.Repo)
			case e.R.IBlobCreator:
				recvs = append(recvs, fam.Upload)
			}
		}
	} else {
		recvs = append(recvs, n)
	}
	for _, r := range recvs {
		for i := 0; i < pi.NumMethods(); i++ {
			if fn := e.method(r, pi.Method(i).Name()); fn != nil {
				add(fn, nil, nil, true)
			}
		}
	}
}

// method finds the ssa function of a (pointer-receiver or value-receiver) method.
func (e *Engine) method(n *types.Named, name string) *ssa.Function {
	if n == nil {
		return nil
	}
	for _, t := range []types.Type{types.NewPointer(n), n} {
		ms := e.P.SSA.MethodSets.MethodSet(t)
		for i := 0; i < ms.Len(); i++ {
			if ms.At(i).Obj().Name() == name {
				return e.P.SSA.MethodValue(ms.At(i))
			}
		}
	}
	return nil
}

func (fa *funcAn) calleeCtx(st lstate, call ssa.CallInstruction, t target) ctxKey {
	e := fa.e
	ctx := ctxKey{fn: t.fn, fam: fa.ctx.fam, held: st.held}
	if f := e.R.FamilyOfFunc(t.fn); f != nil {
		ctx.fam = e.famIndex(f)
	}
	var ps []string
	if t.args != nil && len(t.args) == len(t.fn.Params) {
		for i, a := range t.args {
			if b, ok := t.fn.Params[i].Type().Underlying().(*types.Basic); ok && b.Kind() == types.Bool {
				switch fa.evalBool(a, st) {
				case 1:
					ps = append(ps, fmt.Sprintf("%d=F", i))
				case 2:
					ps = append(ps, fmt.Sprintf("%d=T", i))
				}
			}
			// a record handed over by value or by address (sweep.run(…) with sweep := gcSweep{locked: locked, …}): its boolean
			// fields whose value this context decides keep it in the callee, as "<param>.<field>=T|F"
			if stt, ok := an.Deref(t.fn.Params[i].Type()).Underlying().(*types.Struct); ok && stt.NumFields() <= 16 {
				for j := 0; j < stt.NumFields(); j++ {
					if b, ok := stt.Field(j).Type().Underlying().(*types.Basic); ok && b.Kind() == types.Bool {
						switch fa.argFieldBool(a, j, st) {
						case 1:
							ps = append(ps, fmt.Sprintf("%d.%d=F", i, j))
						case 2:
							ps = append(ps, fmt.Sprintf("%d.%d=T", i, j))
						}
					}
				}
			}
			// a function value handed over (mr.withLock(func() {…}), gcTicker(…, d.gc)): the callee's call of the
			// parameter means this function, not every function any caller passes
			if _, isSig := t.fn.Params[i].Type().Underlying().(*types.Signature); isSig {
				if f, mc := fa.resolveFunc(a, 0); f != nil {
					k := fmt.Sprintf("%p/%p", f, mc)
					if e.fnArgs == nil {
						e.fnArgs = map[string]fnArg{}
					}
					e.fnArgs[k] = fnArg{fn: f, mc: mc}
					ps = append(ps, fmt.Sprintf("%d=@%s", i, k))
				}
			}
			// a token channel handed over (the receiver of a method of a named channel type)
			if isTokenChanType(t.fn.Params[i].Type()) {
				if k := fa.chanKey(a); k != "" {
					ps = append(ps, fmt.Sprintf("%d=@%s", i, k))
				}
			}
			// a sync primitive handed over by address
			if pt, ok := t.fn.Params[i].Type().(*types.Pointer); ok {
				if n := an.NamedOf(pt.Elem()); n != nil && n.Obj().Pkg() != nil && n.Obj().Pkg().Path() == "sync" {
					if tt, ff, _, ok := fa.syncField(a); ok {
						ps = append(ps, fmt.Sprintf("%d=@%s.%s", i, tt, ff))
					}
				}
			}
		}
	}
	// a function literal of this function called here (deferred, or called at once): the sync objects this context binds to
	// this function's parameters travel with it, under the negative index of the enclosing function's parameter (see spawn)
	if t.fn.Parent() == fa.fn {
		for i := range fa.fn.Params {
			if tf := ctxSync(fa.ctx.params, i); tf != "" {
				ps = append(ps, fmt.Sprintf("%d=@%s", -(i+1), tf))
			}
		}
	}
	ctx.params = strings.Join(ps, ",")
	if t.fn.Signature.Recv() != nil && len(t.args) > 0 {
		if fa.e.nonNilValue(t.args[0]) {
			ctx.recvNN = true
		}
		if a, ok := an.Origin(t.args[0]).(*ssa.Alloc); ok {
			ctx.recvAlloc = a
		}
	}
	if t.extern && t.recv != nil {
		if a, ok := an.Origin(t.recv).(*ssa.Alloc); ok {
			ctx.recvAlloc = a
		}
	}
	if t.mc != nil {
		var fs []string
		for i, b := range t.mc.Bindings {
			val := int8(0)
			if idx, ok := fa.boolIdx[b]; ok {
				val = fa.getCell(st, idx)
			} else if fv, ok := b.(*ssa.FreeVar); ok {
				for j, f := range fa.fn.FreeVars {
					if f == fv {
						val = ctxBool(fa.ctx.fvs, j)
					}
				}
			}
			switch val {
			case 1:
				fs = append(fs, fmt.Sprintf("%d=F", i))
			case 2:
				fs = append(fs, fmt.Sprintf("%d=T", i))
			}
		}
		ctx.fvs = strings.Join(fs, ",")
	}
	// unpublished objects passed along
	up := map[string]bool{}
	for k := range fa.unpub {
		up[k] = true
	}
	for _, a := range t.args {
		if n := an.NamedOf(a.Type()); n != nil {
			if _, isStruct := n.Underlying().(*types.Struct); isStruct && fa.unpublishedAt(a, call) {
				up[e.P.TypeName(n)] = true
			}
		}
	}
	if t.extern && ctx.recvAlloc != nil {
		// a caller-local object handed to an external function for the duration of the call
		if n := an.NamedOf(ctx.recvAlloc.Type()); n != nil {
			up[e.P.TypeName(n)] = true
		}
	}
	var ul []string
	for k := range up {
		ul = append(ul, k)
	}
	sort.Strings(ul)
	ctx.unpub = strings.Join(ul, ",")
	return ctx
}

func (fa *funcAn) apply(st lstate, call ssa.CallInstruction, t target) []lstate {
	e := fa.e
	ctx := fa.calleeCtx(st, call, t)
	rk := fmt.Sprintf("%p|%s|%x|%s|%d", t.fn, ctx.params, st.held, ctx.unpub, call.Pos())
	if _, ok := e.CallRecs[rk]; !ok {
		e.CallRecs[rk] = CallRec{Callee: t.fn, Caller: e.P.FuncName(fa.fn), Params: ctx.params, Held: st.held, Unpub: ctx.unpub, Pos: call.Pos()}
	}
	s := e.analyze(ctx, call.Pos())
	name := e.P.FuncName(fa.fn)
	for _, a := range s.acqs {
		a.chain = name + " → " + a.chain
		if strings.Count(a.chain, "→") > 8 {
			a.chain = name + " → … " + a.chain[strings.LastIndex(a.chain[:len(a.chain)/2], "→"):]
		}
		fa.addAcq(a, a.entryMask&^st.quiet)
	}
	if s.exits == nil && s.done {
		// callee never returns normally
		return nil
	}
	distinct := map[[2]uint64]bool{}
	nil1, nil2, nil0 := false, false, false
	for _, ex := range s.exits {
		distinct[[2]uint64{ex.held, ex.rel}] = true
		switch ex.errNil {
		case 1:
			nil1 = true
		case 2:
			nil2 = true
		default:
			nil0 = true
		}
	}
	uniform := !nil0 && (nil1 != nil2)
	var out []lstate
	for _, ex := range s.exits {
		n := st
		n.held = ex.held
		n.rel = st.rel | ex.rel
		if ex.retRel != 0 {
			n.fnrel = ex.retRel
		} else if _, isCall := call.(*ssa.Call); isCall && returnsFuncValue(t.fn) {
			n.fnrel = 0
		}
		if (len(distinct) > 1 || uniform) && (ex.errNil != 0 || ex.bools != 0) {
			if _, isCall := call.(*ssa.Call); isCall {
				n.pend, n.pendNil, n.pendB = fa.callID[call], ex.errNil, ex.bools
			}
		}
		out = append(out, n)
	}
	return uniq(out)
}

// spawn handles a go statement: the target runs as a root of its own; WaitGroup holds that the target
// releases are transferred to it.
func (fa *funcAn) spawn(st lstate, g *ssa.Go) lstate {
	e := fa.e
	var fn *ssa.Function
	if f := g.Call.StaticCallee(); f != nil {
		fn = f
	} else if f, _ := fa.resolveFunc(g.Call.Value, 0); f != nil {
		fn = f
	}
	if fn == nil || !e.inScope(fn) {
		return st
	}
	// the goroutine's parameters: sync primitives handed over by address keep their identity
	params := ""
	if g.Call.StaticCallee() == fn && len(g.Call.Args) == len(fn.Params) {
		params = fa.calleeCtx(st, g, target{fn: fn, args: g.Call.Args}).params
	}
	// a closure of this function that captures a parameter this context binds to a sync primitive (wg.Add(1); go func() {
	// defer wg.Done(); … }() in a function handed &d.wg): the binding travels with the closure, under the negative index
	// -(i+1) of the enclosing function's parameter
	if fn.Parent() == fa.fn {
		for i := range fa.fn.Params {
			if tf := ctxSync(fa.ctx.params, i); tf != "" {
				if params != "" {
					params += ","
				}
				params += fmt.Sprintf("%d=@%s", -(i + 1), tf)
			}
		}
	}
	var transfer uint64
	for _, sub := range an.WithAnon(fn) {
		helper := &funcAn{e: e, fn: sub}
		if sub == fn {
			helper.ctx.params = params
		}
		an.Calls(sub, func(c ssa.CallInstruction) {
			if op, cl, _, ok := helper.syncOp(c); ok && op == "done" && st.held&(1<<uint(cl)) != 0 {
				transfer |= 1 << uint(cl)
			}
		})
	}
	st.held &^= transfer
	fam := fa.ctx.fam
	e.spawnRootP(fn, fam, transfer, "go", params)
	return st
}

func (e *Engine) spawnRoot(fn *ssa.Function, fam int, held uint64, kind string) {
	e.spawnRootP(fn, fam, held, kind, "")
}

func (e *Engine) spawnRootP(fn *ssa.Function, fam int, held uint64, kind string, params string) {
	if f := e.R.FamilyOfFunc(fn); f != nil {
		fam = e.famIndex(f)
	}
	name := kind
	if fam >= 0 {
		name += "/" + e.R.Families[fam].Name
	}
	full := name + ":" + e.P.FuncName(fn)
	for _, r := range e.Roots {
		if r == full {
			return
		}
	}
	e.runRoot(RootSpec{Fn: fn, Fam: fam, Held: held, Name: name, Params: params})
}

var _ = core.FuncPkgPath

// resolveFieldFunc resolves `recv.field(...)` where the receiver is the caller's local object recvAlloc:
// the function stored in that field of the allocation.
func (fa *funcAn) resolveFieldFunc(v ssa.Value) (*ssa.Function, *ssa.MakeClosure) {
	u, ok := v.(*ssa.UnOp)
	if !ok || u.Op != token.MUL {
		return nil, nil
	}
	fld, ok := u.X.(*ssa.FieldAddr)
	if !ok || len(fa.fn.Params) == 0 || an.Origin(fld.X) != ssa.Value(fa.fn.Params[0]) {
		return nil, nil
	}
	a := fa.ctx.recvAlloc
	var res *ssa.Function
	var rmc *ssa.MakeClosure
	n := 0
	// the allocation is initialised either field by field or by copying a composite literal
	var scan func(al ssa.Value, depth int)
	scan = func(al ssa.Value, depth int) {
		if al.Referrers() == nil || depth > 2 {
			return
		}
		for _, r := range *al.Referrers() {
			switch x := r.(type) {
			case *ssa.FieldAddr:
				if x.Field != fld.Field || x.Referrers() == nil {
					continue
				}
				for _, rr := range *x.Referrers() {
					if st, ok := rr.(*ssa.Store); ok && st.Addr == x {
						helper := &funcAn{e: fa.e, fn: a.Parent()}
						if f, mc := helper.resolveFunc(st.Val, 0); f != nil {
							res, rmc = f, mc
							n++
						} else {
							n += 2
						}
					}
				}
			case *ssa.Store:
				if x.Addr == al {
					if ld, ok := x.Val.(*ssa.UnOp); ok && ld.Op == token.MUL {
						scan(ld.X, depth+1)
					}
				}
			}
		}
	}
	scan(a, 0)
	if n == 1 {
		return res, rmc
	}
	return nil, nil
}

// nilness decides nil tests from the context: 1 nil, 2 non-nil, 0 unknown.
func (fa *funcAn) nilness(x ssa.Value) int8 {
	e := fa.e
	if p, ok := x.(*ssa.Parameter); ok {
		if fa.ctx.recvNN && len(fa.fn.Params) > 0 && fa.fn.Params[0] == p && fa.fn.Signature.Recv() != nil {
			return 2
		}
		return 0
	}
	u, ok := x.(*ssa.UnOp)
	if !ok || u.Op != token.MUL {
		return 0
	}
	if _, isSig := u.Type().Underlying().(*types.Signature); !isSig {
		return 0
	}
	t, f, _, ok := e.fieldOf(u.X)
	if !ok {
		return 0
	}
	return e.funcFieldNilness(t + "." + f)
}

// funcFieldNilness: a function-typed field through which the call graph finds no callee is never
// assigned (nil); one with callees is taken to be installed.
func (e *Engine) funcFieldNilness(key string) int8 {
	if e.funcFields == nil {
		e.funcFields = map[string]int{}
		for _, fn := range e.P.ModFuncs {
			an.Calls(fn, func(c ssa.CallInstruction) {
				cc := c.Common()
				if cc.IsInvoke() || cc.StaticCallee() != nil {
					return
				}
				u, ok := cc.Value.(*ssa.UnOp)
				if !ok || u.Op != token.MUL {
					return
				}
				t, f, _, ok := e.fieldOf(u.X)
				if !ok {
					return
				}
				k := t + "." + f
				if _, seen := e.funcFields[k]; !seen {
					e.funcFields[k] = 0
				}
				e.funcFields[k] += len(e.P.Callees(c))
			})
		}
	}
	n, known := e.funcFields[key]
	if !known {
		return 0
	}
	if n == 0 {
		return 1
	}
	e.note("function field %s is taken to be installed (non-nil) wherever it is tested: the call graph finds callees through it", key)
	return 2
}

// nonNilValue: v is a load of a field that only ever receives fresh allocations (directly or as the
// result of a function all of whose returns are allocations).
func (e *Engine) nonNilValue(v ssa.Value) bool {
	u, ok := v.(*ssa.UnOp)
	if !ok || u.Op != token.MUL {
		_, isAlloc := v.(*ssa.Alloc)
		return isAlloc
	}
	t, f, _, ok := e.fieldOf(u.X)
	if !ok {
		return false
	}
	key := t + "." + f
	if e.nnFields == nil {
		e.nnFields = map[string]int8{}
		fresh := func(val ssa.Value) bool {
			val = an.Strip(val)
			if _, ok := val.(*ssa.Alloc); ok {
				return true
			}
			if c, ok := val.(*ssa.Call); ok {
				if cal := c.Call.StaticCallee(); cal != nil && cal.Blocks != nil {
					all := true
					an.Instrs(cal, func(in ssa.Instruction) {
						if r, ok := in.(*ssa.Return); ok {
							if len(r.Results) != 1 {
								all = false
								return
							}
							if _, ok := an.Strip(r.Results[0]).(*ssa.Alloc); !ok {
								all = false
							}
						}
					})
					return all
				}
			}
			return false
		}
		for _, fn := range e.P.ModFuncs {
			an.Instrs(fn, func(in ssa.Instruction) {
				st, ok := in.(*ssa.Store)
				if !ok {
					return
				}
				tt, ff, _, ok := e.fieldOf(st.Addr)
				if !ok {
					return
				}
				k := tt + "." + ff
				if fresh(st.Val) {
					if e.nnFields[k] == 0 {
						e.nnFields[k] = 2
					}
				} else {
					e.nnFields[k] = 1
				}
			})
		}
	}
	return e.nnFields[key] == 2
}

// escape summary of a parameter: it may become reachable from unknown places, and/or from the
// objects other parameters point to.
type escSum struct {
	unknown  bool
	into     uint32
	returned bool // the parameter, or a fresh object holding it, is handed back to the caller
}

// baseOf strips field/element addressing and loads down to the root value.
func baseOf(v ssa.Value) ssa.Value {
	for i := 0; i < 32; i++ {
		switch x := v.(type) {
		case *ssa.FieldAddr:
			v = x.X
		case *ssa.IndexAddr:
			v = x.X
		case *ssa.UnOp:
			if x.Op != token.MUL {
				return v
			}
			v = x.X
		case *ssa.Lookup:
			v = x.X
		case *ssa.Extract:
			v = x.Tuple
		case *ssa.MakeInterface:
			v = x.X
		case *ssa.ChangeInterface:
			v = x.X
		case *ssa.ChangeType:
			v = x.X
		default:
			return v
		}
	}
	return v
}

// callPublishes: the call may make the object v points to visible to other goroutines.
func (e *Engine) callPublishes(call ssa.CallInstruction, v ssa.Value) bool {
	if _, isGo := call.(*ssa.Go); isGo {
		return true
	}
	cc := call.Common()
	var callees []*ssa.Function
	if sc := cc.StaticCallee(); sc != nil {
		callees = []*ssa.Function{sc}
	} else {
		callees = e.P.Callees(call)
		if len(callees) == 0 {
			return true
		}
	}
	args := cc.Args
	if cc.IsInvoke() {
		args = append([]ssa.Value{cc.Value}, cc.Args...)
	}
	for _, cal := range callees {
		if !e.inScope(cal) {
			return true
		}
		for i, a := range args {
			if a != v || i >= len(cal.Params) {
				continue
			}
			es := e.paramEscape(cal, i, 0)
			if es.unknown {
				return true
			}
			for j := range args {
				if es.into&(1<<uint(j)) != 0 && baseOf(args[j]) != v {
					return true // stored into another object
				}
			}
		}
	}
	return false
}

// paramEscape computes where the function may store its i-th parameter.
func (e *Engine) paramEscape(fn *ssa.Function, i int, depth int) escSum {
	if e.escMemo == nil {
		e.escMemo = map[string]*escSum{}
	}
	key := fmt.Sprintf("%p/%d", fn, i)
	if v, ok := e.escMemo[key]; ok {
		return *v
	}
	if depth > 10 || fn.Blocks == nil || i >= len(fn.Params) {
		return escSum{unknown: true}
	}
	res := &escSum{}
	e.escMemo[key] = res // optimistic for recursion
	paramIdx := func(v ssa.Value) int {
		for k, p := range fn.Params {
			if ssa.Value(p) == v {
				return k
			}
		}
		return -1
	}
	seen := map[ssa.Value]bool{}
	var visit func(v ssa.Value)
	// storedInto: the tracked value becomes reachable from the object addr belongs to
	var storedInto func(addr ssa.Value)
	phiSeen := map[*ssa.Phi]bool{}
	storedInto = func(addr ssa.Value) {
		b := baseOf(addr)
		// the object written is one of several (an entry found under the key, or a fresh one): each of them
		if ph, isPhi := b.(*ssa.Phi); isPhi {
			if phiSeen[ph] {
				return
			}
			phiSeen[ph] = true
			for _, ed := range ph.Edges {
				if c, isC := ed.(*ssa.Const); isC && c.Value == nil {
					continue
				}
				storedInto(ed)
			}
			return
		}
		if k := paramIdx(b); k >= 0 {
			if k != i {
				res.into |= 1 << uint(k)
			}
			return
		}
		if b == fn.Params[i] {
			return
		}
		if a, ok := b.(*ssa.Alloc); ok {
			visit(a) // a local object now holds it: follow that object
			return
		}
		if fv, ok := b.(*ssa.FreeVar); ok {
			_ = fv
		}
		res.unknown = true
	}
	visit = func(v ssa.Value) {
		if res.unknown || seen[v] || v.Referrers() == nil {
			return
		}
		seen[v] = true
		for _, r := range *v.Referrers() {

			switch x := r.(type) {
			case *ssa.FieldAddr, *ssa.IndexAddr, *ssa.DebugRef, *ssa.If, *ssa.BinOp, *ssa.TypeAssert, *ssa.Lookup, *ssa.Range, *ssa.Index, *ssa.Field:
			case *ssa.UnOp:
				// loading through the pointer does not move the pointer itself
			case *ssa.Store:
				if x.Val == v {
					storedInto(x.Addr)
				}
			case *ssa.MapUpdate:
				if x.Value == v || x.Key == v {
					storedInto(x.Map)
				}
			case *ssa.Send, *ssa.MakeClosure, *ssa.Go, *ssa.Defer:
				res.unknown = true
			case *ssa.Return:
				// handed back to the caller (the parameter itself, or a fresh object that holds it): the caller's frame
				// decides — a caller of this summary follows the call's result like a local holder
				res.returned = true
			case *ssa.Extract:
				visit(x)
			case *ssa.MakeInterface:
				visit(x)
			case *ssa.ChangeInterface:
				visit(x)
			case *ssa.ChangeType:
				visit(x)
			case *ssa.Phi:
				visit(x)
			case *ssa.Call:
				cc := x.Common()
				var callees []*ssa.Function
				if sc := cc.StaticCallee(); sc != nil {
					callees = []*ssa.Function{sc}
				} else {
					callees = e.P.Callees(x)
					if len(callees) == 0 {
						res.unknown = true
					}
				}
				args := cc.Args
				if cc.IsInvoke() {
					args = append([]ssa.Value{cc.Value}, cc.Args...)
				}
				for _, cal := range callees {
					if !e.inScope(cal) {
						res.unknown = true
						break
					}
					for j, a := range args {
						if a != v {
							continue
						}
						es := e.paramEscape(cal, j, depth+1)
						if es.unknown {
							res.unknown = true
						}
						if es.returned {
							visit(x) // the result may hold it
						}
						for k := range args {
							if es.into&(1<<uint(k)) != 0 {
								storedInto(args[k])
							}
						}
					}
				}
			default:
				res.unknown = true
			}
		}
	}
	visit(fn.Params[i])
	return *res
}

// boolResult evaluates a returned boolean: 2 true, 1 false, 0 unknown (looks through defer-spilled cells).
func (fa *funcAn) boolResult(v ssa.Value, ret *ssa.Return) int8 {
	if u, ok := v.(*ssa.UnOp); ok && u.Op == token.MUL {
		if a, ok := u.X.(*ssa.Alloc); ok {
			var last ssa.Value
			for _, in := range ret.Block().Instrs {
				if s, ok := in.(*ssa.Store); ok && s.Addr == a {
					last = s.Val
				}
			}
			if last != nil {
				v = last
			}
		}
	}
	if c, ok := v.(*ssa.Const); ok && c.Value != nil {
		if c.Value.String() == "true" {
			return 2
		}
		if c.Value.String() == "false" {
			return 1
		}
	}
	return 0
}

// returnsFuncValue: fn has a single result of type func().
func returnsFuncValue(fn *ssa.Function) bool {
	if fn == nil {
		return false
	}
	res := fn.Signature.Results()
	if res.Len() != 1 {
		return false
	}
	sig, ok := res.At(0).Type().Underlying().(*types.Signature)
	return ok && sig.Params().Len() == 0 && sig.Results().Len() == 0
}

// returnsUnlock: the function value is (on some way) the Unlock of a mutex: a bound method value `mu.Unlock`, or a
// function literal that calls an Unlock.
func returnsUnlock(v ssa.Value, depth int) bool {
	if depth > 3 {
		return false
	}
	switch x := an.Strip(v).(type) {
	case *ssa.MakeClosure:
		f, ok := x.Fn.(*ssa.Function)
		if !ok {
			return false
		}
		found := false
		an.Calls(f, func(call ssa.CallInstruction) {
			if an.IsMethod(call, "sync", "Mutex", "Unlock") || an.IsMethod(call, "sync", "RWMutex", "Unlock") || an.IsMethod(call, "sync", "RWMutex", "RUnlock") {
				found = true
			}
		})
		return found
	case *ssa.Phi:
		for _, e := range x.Edges {
			if returnsUnlock(e, depth+1) {
				return true
			}
		}
	}
	return false
}

type handlerFn struct {
	fn *ssa.Function
	mc *ssa.MakeClosure
}

// returnedHandlers: the functions behind an http.Handler value that is the result of a call of a module function —
// every return of that function is followed through interface and type conversions to a function literal or to the
// closure a handler constructor returns.
func (fa *funcAn) returnedHandlers(v ssa.Value, depth int) []handlerFn {
	if depth > 3 {
		return nil
	}
	strip := func(x ssa.Value) ssa.Value {
		for i := 0; i < 6; i++ {
			switch y := x.(type) {
			case *ssa.MakeInterface:
				x = y.X
			case *ssa.ChangeType:
				x = y.X
			case *ssa.ChangeInterface:
				x = y.X
			default:
				return x
			}
		}
		return x
	}
	src, ok := strip(an.Origin(v)).(*ssa.Call)
	if !ok {
		src, ok = strip(an.Strip(v)).(*ssa.Call)
	}
	if !ok {
		return nil
	}
	h := src.Call.StaticCallee()
	if h == nil || len(h.Blocks) == 0 || !fa.e.inScope(h) {
		return nil
	}
	var out []handlerFn
	seen := map[*ssa.Function]bool{}
	helper := &funcAn{e: fa.e, fn: h}
	an.Instrs(h, func(in ssa.Instruction) {
		ret, isRet := in.(*ssa.Return)
		if !isRet || len(ret.Results) != 1 {
			return
		}
		var visit func(x ssa.Value, d int)
		visit = func(x ssa.Value, d int) {
			if d > 4 {
				return
			}
			x = strip(x)
			if ph, isPhi := x.(*ssa.Phi); isPhi {
				for _, e := range ph.Edges {
					visit(e, d+1)
				}
				return
			}
			if f, mc := helper.resolveFunc(x, 0); f != nil {
				if !seen[f] {
					seen[f] = true
					out = append(out, handlerFn{f, mc})
				}
				return
			}
			for _, hf := range helper.returnedHandlers(x, depth+1) {
				if !seen[hf.fn] {
					seen[hf.fn] = true
					out = append(out, hf)
				}
			}
		}
		visit(ret.Results[0], 0)
	})
	return out
}
